# C05 — reopening and maintenance operations preserve the database
import os
import vlib
from checks.common import *
from checks.db_common import run_db, spec_level

META = dict(
    engine="coq+hx_core",
    technique="Coq proofs at two layers: (L1) reopen / backup+open / optimize preserve the storage layer's record map exactly (model of storage.rs proved to refine the abstract map, C04); "
              "(L2) the storage-backed collections — vec.rs, DbMapData of map.rs, GraphDataStorage of graph.rs, the root record of db.rs — modelled line by line as programs over the storage "
              "interface and verified against the abstract record map for EVERY history including reloads (from_storage) and maintenance of the storage underneath, transferred to the storage model "
              "through C04_step_refines; + differential execution of the extracted collection model (run on the extracted storage model: exact record bytes and indexes) against the real collections "
              "through the cfg(agdb_verif) wrappers of hook H4; + maintenance operations executed at random points of generated query histories with ordered full dumps before/after",
    level_text="PARTIAL (the database level L3 is not a theorem). Machine-checked (coq/Props/C05.v, every theorem closed under the global context): "
               "L1: C05_storage_maintenance_partial — on every reachable storage state backup+open, drop+open of a committed file and optimize_storage preserve the map index -> bytes of live records exactly; "
               "C05_clean_reopen_identity. "
               "L2, vectors (FULL): C05_vec_history — for EVERY history of push / replace / remove / swap / resize / reserve / shrink_to_fit / value / iteration / len on a storage-backed vector, interleaved at will "
               "with reloads (the handle dropped and rebuilt by DbVec::from_storage, incl. its length check) and with optimize / drop+open / backup+open of the storage underneath, the observations are those of "
               "the plain list (reload and maintenance do nothing), the representation invariant holds (record = le64 len ++ slots ++ UNCONSTRAINED spare bytes, slot i represents element i, len <= capacity) "
               "and the history touches exactly its footprint (frame: no other record changes, none is leaked); generic in the element class (elem_law), proved for u64, i64, raw inline bytes, MapValueState, "
               "String (out-of-line records owned by the slots), DbValue (the 16-byte value index of C12: inline up to 15 bytes, else one owned record; from C12's theorems) and DbKeyValue (a pair of them); C05_vec_reload; C05_vec_remove_from_storage; C05_vec_history_on_storage_{u64,i64,string,dbvalue,dbkv} + C05_cwp_sound: the same statements hold of runs on the "
               "MODEL OF storage.rs (file-like and memory-like) from a fresh storage — nothing is assumed of the storage that C04 did not prove; non-vacuity examples by evaluation. "
               "L2, map data (FULL for the MapData interface): C05_map_history — EVERY history of set_state / set_key / set_value / set_len / resize / swap / shrink_to_fit / state / key / value / capacity / len of a "
               "storage-backed map (DbMapData: the index record + the three vectors, pairwise disjoint), with reloads (DbMapData::from_storage) and maintenance at will, yields the observations of the plain table; "
               "the reloaded interface stands for the same table, so the algorithms of multi_map.rs (written against that interface, no state of their own; OpenMap.v/C19 on ct_omap) compute the same; C05_map_reload; "
               "C05_map_history_on_storage_{u64,string} on the model of storage.rs. "
               "L2, graph data (FULL for the GraphData interface): C05_graph_history — EVERY history of set / get of from, to, from_meta, to_meta, grow, shrink_to_fit, capacity on GraphDataStorage (index record + four "
               "DbVec<i64>), with reloads and maintenance, yields the observations of the four plain arrays (the arrays of Graph.v/C08); C05_graph_history_on_storage from GraphDataStorage::new. "
               "L2, root record: C05_root_roundtrip_partial — DbStorageIndex stored at index 1 is what the next open reads (PARTIAL: the components are not assembled into one invariant of the whole database file). "
               "Also pinned: C02_{vec,map,graph}_loads_partial (the loaders succeed and read back the content in every state satisfying the invariants, i.e. at every transaction boundary) and "
               "C06_{vec,map,graph}_variants_agree (file-like and memory-like storage give the same observations for every collection history). "
               "NOT proved: the composition L2 -> L3 (that DbImpl's query results are a function of these collections' contents only; DbIndexes = a vector of (value index, multi-map) pairs, DbKeyValues = a vector of "
               "indexes of DbVec<DbKeyValue> — each component class is covered, the nesting is not assembled), the algorithms of multi_map.rs / graph.rs over the interfaces (C19 / C08 models), and the "
               "u64-overflow behaviour of vec.rs' own arithmetic (modelled in N; bounded by the record size which the storage keeps below 2^64). "
               "Checked on every run: (a) collection correspondence — generated histories (vectors of u64 / i64 / String / DbValue / DbKeyValue, DbMapData<u64,u64> and <String,u64>, GraphDataStorage; reload / optimize / reopen / backup+open "
               "at random points) on MemoryStorage, FileStorage and FileStorageMemoryMapped through hook H4; after EVERY step the observation, the handle (index, len, capacity) and EVERY live record of the storage with "
               "its raw bytes are compared EXACTLY with the extracted model (spare-capacity bytes and indexes of out-of-line records included); independently a shadow list / table / multimap in the harness is the direct "
               "oracle on the implementation (reads agree; content read through a reloaded handle equals the content before), also for the whole MultiMapStorage<u64,u64>; skipped with a note when hook H4 "
               "(fixes/H4-dbvec-wrapper.diff) is not in the tree under test; (b) each of {drop+reopen, optimize_storage, shrink_to_fit, backup+open, copy, rename, reopen with another file-backed variant} applied at "
               "random points (and at the end) of generated query histories on DbFile, Db, DbAny(file), DbAny(mapped): full ORDERED dump and a battery of 12 searches identical before and after, the history continues "
               "side by side with the in-memory database and the extracted database model. The *_guarded theorems state the L1 results for the recovery with the position check of apply_wal_record (model recover_g, fix 826414a): "
               "on logs the storage wrote the check never fires (C01_guarded_recovery_agrees).",
    design_ref="DESIGN.md §5 C05",
    level_note="Trusted: Coq kernel, extraction, OCaml driver, Rust harness (its generators and shadow structures), hook H4 (delegating wrappers, add-only, cfg(agdb_verif)). The storage model is tied to storage.rs by "
               "the C04 correspondence, the collection model to vec.rs / map.rs / graph.rs by the exact byte-level correspondence of this check. DbMemory 'reopen' = backup to a file + open.",
)

WRAPPER = "vdbvec!(VDbVecU64"         # hook H4 (fixes/H4-dbvec-wrapper.diff) in agdb/src/verif.rs


def wrapper_present():
    p = os.path.join(vlib.REPO, "agdb", "src", "verif.rs")
    return os.path.exists(p) and WRAPPER in open(p, errors="replace").read()


def run_coll(ctx):
    """collection-layer correspondence (needs hook H4): exact comparison of observations, handles and all live record bytes"""
    exe, dlog = vlib.build_driver()
    if exe is None:
        raise RuntimeError("driver build failed: " + dlog)
    tdir, blog = vlib.cargo_build("hx_core", "release", features=["h4_dbvec"])
    if tdir is None:
        raise RuntimeError("harness build (feature h4_dbvec) failed: " + blog)
    w = os.path.join(ctx.workdir, "coll")
    os.makedirs(w, exist_ok=True)
    n, steps = (120, 70) if ctx.tier == "quick" else (1600, 120)
    rc, out = vlib.sh([os.path.join(tdir, "hx_core"), "coll", "--seed", str(ctx.seed), "--n", str(n), "--steps", str(steps), "--out", w], timeout=6000)
    if rc != 0:
        raise RuntimeError("coll harness failed: " + out[-2000:])
    rc, err = run_driver(exe, os.path.join(w, "cases.txt"), os.path.join(w, "model.txt"), timeout=6000)
    cases, model, impl = (read_lines(os.path.join(w, f)) for f in ("cases.txt", "model.txt", "impl.txt"))
    dis = diff_lines(cases, model, impl, limit=8)
    for d in dis:
        try:
            k = int(d["what"].split()[1])
            start = max(i for i in range(k + 1) if cases[i].startswith("coll new"))
            d["history"] = " ; ".join(c[len("coll "):] for c in cases[start:k + 1])[:6000]
            d["what"] = "collection correspondence, " + d["what"]
        except Exception:
            pass
    for i, m in enumerate(model):
        if m.startswith("ERROR"):
            dis.append(dict(what="collection correspondence, case %d: the model driver failed" % i, case=cases[i][:2000], model=m[:2000], impl=impl[i][:2000] if i < len(impl) else ""))
            break
    failures = [dict(cls=l.split(" ")[0], what=l[:6000]) for l in read_lines(os.path.join(w, "oracle.txt"))]
    dist, ev, nt, samples = merge_stats([os.path.join(w, "stats.json")])
    return dict(steps=ev, lines=len(cases), disagreements=dis, failures=failures, dist=dist, nontrivial=nt, samples=samples, histories=dist.get("histories", 0))


def run(ctx):
    notes = []
    co = None
    if wrapper_present():
        co = run_coll(ctx)
    else:
        notes.append("collection-layer correspondence (Collections.v against DbVec / DbMapData / GraphDataStorage, exact record bytes) SKIPPED: hook H4 "
                     "(agdb::verif::VDbVecU64 & co., fixes/H4-dbvec-wrapper.diff) is not in %s; only the part that needs no hook ran "
                     "(maintenance operations on generated query histories through the public Db API)" % vlib.REPO)
    n, steps = (50, 30) if ctx.tier == "quick" else (1200, 60)
    r = run_db(ctx, "all", n, steps, variants="file,mapped,any_file,any_mapped", maintenance=True)
    # index-heavy histories as well: several indexes created and removed in varying order before the maintenance operation
    # (the order of the persisted index list vs the in-memory one only shows with >= 3 indexes and a removal in the middle)
    ri = run_db(ctx, "index", n, steps + 10, variants="file,mapped,any_file,any_mapped", maintenance=True, sub="db_index", seed_off=4242)
    r = dict(r)
    for k in ("failures", "disagreements", "samples"):
        r[k] = r[k] + ri[k]
    for k in ("cases", "histories", "nontrivial"):
        r[k] = r[k] + ri[k]
    r["dist"] = dict(r["dist"]); r["dist"].update({"index:" + k: v for k, v in ri["dist"].items()})
    failures = [f for f in r["failures"] if f["cls"].startswith(("maintenance-", "variant-")) or f["cls"] in ("panic", "read-error")]
    failures += [f for f in spec_level(r) if f["cls"] == "model-mismatch"]
    disagreements = list(r["disagreements"])
    evaluations, nontrivial, samples, dist = r["cases"], r["nontrivial"], r["samples"], dict(r["dist"])
    rule = ("%d generated query histories (profiles all and index, <= %d steps) executed on DbMemory and side by side on DbFile, Db, DbAny(file), DbAny(mapped); with probability 1/12 per step and at the end each "
            "file-backed database undergoes one random maintenance operation (reopen, optimize, shrink, backup_open, copy, rename, switch variant) with ordered dump + search battery compared before/after "
            "(maintenance-differs / maintenance-error), then the history continues on it; non-trivial = history with at least one maintenance operation" % (r["histories"], steps))
    if co is not None:
        failures = co["failures"] + failures
        disagreements = co["disagreements"] + disagreements
        evaluations += co["steps"]
        nontrivial += co["nontrivial"]
        samples = co["samples"][:3] + samples[:3]
        dist.update({"coll:" + k: v for k, v in co["dist"].items()})
        rule = ("collection layer: %d histories (the same generated history on MemoryStorage, FileStorage, FileStorageMemoryMapped; kinds: DbVec<u64>, DbVec<i64>, DbVec<String>, DbVec<DbValue>, DbVec<DbKeyValue>, DbMapData<u64,u64>, "
                "DbMapData<String,u64>, GraphDataStorage, MultiMapStorage<u64,u64>), %d steps; 14%% of the steps are a reload (handle rebuilt by from_storage) or a maintenance operation of the storage "
                "(optimize, drop+open, backup+open); after EVERY step observation + handle + every live record's bytes equal the extracted model's line (%d lines compared; MultiMapStorage: shadow "
                "oracle only); non-trivial = history with a reload, a maintenance operation and growth/removal. Database level: " % (co["histories"], co["steps"], co["lines"])) + rule
        notes.append("collection correspondence: %d steps on %d histories, %d lines compared exactly, %d disagreements, %d oracle failures"
                     % (co["steps"], co["histories"], co["lines"], len(co["disagreements"]), len(co["failures"])))
    return dict(
        evaluations=evaluations, distinct_nontrivial=nontrivial, samples=samples, dist=dist, rule=rule,
        failures=failures, disagreements=disagreements,
        assumptions=["insert lists have distinct keys",
                     "the payload 8 + size * len of a vector stays below 2^64 (it is bounded by the record size)"],
        trusted_extra=["harness shadow list / table / multimap (collrun.rs) as the independent statement of the collection semantics"],
        notes=notes,
    )
