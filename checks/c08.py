# C08 — graph mutations behave like an abstract directed multigraph
# (database model coq/theories/Graph.v DbModel.v + hx_core `db` harness, profile `graph`)
import vlib
from checks.db_common import run_db, spec_level

META = dict(
    engine="coq+hx_core",
    technique="Coq proof about the executable database model + differential correspondence of the extracted model with the real agdb on generated query histories",
    level_text="Machine-checked refinement proof (coq/Props/C08.v, all statements full, unbounded, closed under the global context) that the slot-array model of "
               "agdb's graph (theories/Graph.v, line by line from graph.rs) simulates an abstract directed multigraph (nodes + edges newest-first, per-node ordered "
               "out-/in-lists): C08_wf_new (empty graph), C08_insert_node / C08_insert_edge (new id positive / negative, magnitude used by no node and no edge, exactly "
               "that element added, a new edge at the head of both adjacency lists), C08_insert_edge_missing (missing endpoint: fails, no new graph), C08_remove_edge / "
               "C08_remove_node (+_absent: the unlink loops find_prev / remove_from_edges / remove_to_edges never run out of fuel; exactly the edge, resp. the node and "
               "every incident edge - a self-loop once - is removed, order of the other lists preserved), C08_observations (node_count, graph_index, element iteration, "
               "out_edges / in_edges in order, edge_count_from / edge_count_to = abstract degrees with a self-loop on both sides, edge endpoints all equal the abstract "
               "graph), C08_abs_unique, C08_free_list (free list duplicate-free, cleared unused slots, exactly the slots with from_meta < 0 below capacity 2^63), and the lifting to ALL histories C08_history_refines / C08_history_sim (for every list of sign-correct operations from the empty "
               "graph: never out of fuel, every returned id accepted by the acceptor specification C08_astep_def, final graph well-formed and observably the abstract "
               "graph); wf-only corollaries C08_wf_preserved, C08_wf_adjacency, C08_wf_edge_ends. DbImpl level (theories/DbCascadeProofs.v, full, under the "
               "hypothesis that the db's graph is wf): C08_db_cascade / C08_db_cascade_alias (remove_id / remove by alias of a node never fails; afterwards the node "
               "and every incident edge are no longer elements, their key-value lists are empty, the alias does not resolve, no element appeared, node count - 1), "
               "C08_db_cascade_edge, C08_db_remove_total, C08_db_mutations_wf (insert_node_db / insert_edge_db / remove_id keep the graph wf); C08_db_query_wf (the state after ANY query of Queries.v inside a transaction, whatever "
               "its outcome, has a wf graph, from every state satisfying the joint invariant of C09/C10/C11), C08_db_rollback_wf (every rollback keeps wf: the undo commands reach the "
               "graph only through insert_node / insert_edge / remove_edge / remove_node with sign-correct ids) and C08_db_history_wf_partial (after EVERY history of queries and "
               "transactions from the empty database, failing ones and their rollback included, the graph is wf). PARTIAL only in its quantifier: histories whose insert lists have "
               "distinct keys (the proof goes through the joint invariant) and capacity <= 2^63; histories with a key named twice in one insert list are covered by the differential runs only. "
               "Ids are assumed to carry the sign of "
               "their kind, which DbImpl guarantees via graph_index (C08_raw_negative_endpoint_witness shows the raw GraphImpl API needs it). The model is tied to "
               "/repo on every run by executing generated histories of node/edge inserts and removals (with id reuse, self-loops, parallel edges, failing inserts) on "
               "the real database and on the extracted model and comparing every query result and periodic full dumps.",
    design_ref="DESIGN.md §5 C08",
    level_note="Trusted: Coq kernel, extraction (ExtrOcamlBasic), OCaml driver, Rust harness/generators. Theorems are about the model (theories/Graph.v, DbModel.v); "
               "the tie to the code is differential execution of generated histories (every query result and periodic full dumps compared).",
)

PROFILE = "graph"                       # generator profile: graph kv alias index txn search all hash
CLASSES = ("graph-",)                   # oracle failure classes that are violations of THIS property
COMMON = ("panic", "read-error")        # failures that are violations wherever they show up


def run(ctx):
    n, steps = (150, 30) if ctx.tier == "quick" else (4000, 60)
    r = run_db(ctx, PROFILE, n, steps)
    failures = [f for f in r["failures"] if f["cls"].startswith(CLASSES) or f["cls"] in COMMON]
    # the validated database model is the proved specification: a result that differs from it is a violation with the history
    failures += [f for f in spec_level(r) if f["cls"] == "model-mismatch"][:3]
    return dict(
        evaluations=r["cases"], distinct_nontrivial=r["nontrivial"], samples=r["samples"], dist=r["dist"],
        rule="%d generated query histories (profile %s, <= %d steps: ~70%% mutations weighted towards node inserts (counted, aliased, through ids), edge inserts "
             "(single, many-to-many, each; self-loops and parallel edges; from/to through searches) and removals by id/alias/search with id reuse, ~22%% selects "
             "(edge_count, node_count, values, aliases, searches), ~8%% transactions of which 1/5 with an injected failure; mostly-valid operations over live "
             "ids/aliases plus an invalid stream (missing nodes, edge ids as endpoints, id 0)); every query result and a full dump every 8 steps compared line "
             "by line with the extracted Coq model; graph state invariants evaluated on the implementation's dumps (node_count = number of listed nodes, no id "
             "magnitude used twice, no edge with a missing endpoint, every node's outgoing/incoming edge lists = the edges whose from/to is that node); "
             "non-trivial = history that had, at a dump point, >= 2 nodes and an edge, or a rolled-back multi-query transaction"
             % (r["histories"], PROFILE, steps),
        failures=failures, disagreements=r["disagreements"],
        assumptions=["generated insert value lists have distinct keys (generator restriction, irrelevant to the graph structure)"],
    )
