# C10 — aliases form a one-to-one mapping onto existing nodes
import vlib
from checks.db_common import run_db, spec_level

META = dict(
    engine="coq+hx_core",
    technique="Coq proof about the executable database model + differential correspondence of the extracted model with the real agdb on generated query histories",
    level_text="Machine-checked theorems (coq/Props/C10.v) about the executable model of IndexedMapImpl<String,DbId> and of the alias handling of DbImpl / the alias queries. "
               "FULL (unbounded, every revision): C10_bijection (the two-sided map stays a bijection with duplicate-free key lists under every sequence of insert / remove_key), "
               "C10_one_to_one, C10_insert_semantics (a |-> id, previous alias of id and previous holder of a unmapped, rest unchanged), C10_remove_semantics, "
               "C10_db_insert_alias / C10_db_insert_new_alias / C10_db_remove_alias / C10_db_remove_node (DbImpl functions: on lookups insert_alias is IndexedMap::insert, "
               "bijection kept, aliased ids stay existing nodes, a removed node is no longer named), C10_resolve_select_agree, C10_empty_alias_rejected, "
               "C10_empty_alias_first_no_effect, C10_rejected_insert_aliases_no_effect + C10_empty_alias_no_effect (fixed revision: a rejected InsertAliases query - empty alias / edge id / unknown id at ANY position - is rolled back to a state with the same graph, values, indexes and an alias map answering every lookup as before; proved through the undo commands of insert_alias), C10_edge_alias_rejected (fixed revision), C10_pinned_refuted and C10_steal_pinned_refuted (vm_compute witnesses of the two repaired defects: alias on an edge; alias lost by a rolled-back steal). "
               "HISTORY LEVEL (UNCONDITIONAL): C10_step_inv, C10_transaction and C10_history show that the joint invariant Inv (graph well-formed [C08] + alias map one-to-one on existing nodes + no duplicate keys + exact indexes) is kept by every mutating query whatever its outcome, at every state inside a running transaction, and after every history from the empty database in which no query fails, for the revision of /repo and histories whose insert lists have distinct keys (query_ok, C09's quantifier). The former hypothesis `traversal_live rv_fixed` is DISCHARGED: theories/TraversalLiveProofs.v proves from the C14 / C17 / C18 developments, under the graph invariant wf, that breadth/depth-first searches (any conditions, any limit/offset) and path searches from existing origins return only existing elements, hence every id returned by any search exists (C10_traversal_live); the old hypothesis was false as literally stated (its path clause did not ask for an existing origin: C10_traversal_live_refuted), so the old *_partial theorems were vacuous and are kept for the record only. States after the ROLLBACK of failing queries / transactions are covered by C13_history_atomic / C13_history_invariant (coq/Props/C13.v): Inv holds at every point of every history of queries and transactions, failing or not (same query_ok quantifier, capacity <= 2^63). C10_no_empty_alias_step (every query of every kind, whatever its outcome, from ANY state, every revision with fix_empty_alias on: the empty alias still does not resolve) and C10_history_no_empty_alias (after every history of queries and transactions from the empty database, failing ones and their rollback included, the empty alias does not resolve and no element is named by the empty alias; same two hypotheses). "
                              "database and on the extracted model and comparing every query result and periodic full dumps.",
    design_ref="DESIGN.md §5 C10",
    level_note="Trusted: Coq kernel, extraction (ExtrOcamlBasic), OCaml driver, Rust harness/generators. Theorems are about the model (theories/DbModel.v etc.); "
               "the tie to the code is differential execution of generated histories (every query result and periodic full dumps compared).",
)

PROFILE = "alias"
CLASSES = ("alias-",)
COMMON = ("panic", "read-error")


def run(ctx):
    n, steps = (150, 30) if ctx.tier == "quick" else (4000, 60)
    r = run_db(ctx, PROFILE, n, steps)
    failures = [f for f in r["failures"] if f["cls"].startswith(CLASSES) or f["cls"] in COMMON]
    # the validated database model is the proved specification: a result that differs from it is a violation with the history
    failures += [f for f in spec_level(r) if f["cls"] == "model-mismatch"][:3]
    return dict(
        evaluations=r["cases"], distinct_nontrivial=r["nontrivial"], samples=r["samples"], dist=r["dist"],
        rule="%d generated query histories (profile %s, <= %d steps, mostly-valid operations over live ids/aliases plus an invalid stream); every query "
             "result and a full dump every 8 steps compared line by line with the extracted Coq model; state invariants of the property (alias map one-to-one, "
             "aliases only on existing nodes) evaluated on the implementation's dumps; non-trivial = history that reached a state with >= 2 nodes and an edge or a "
             "rolled-back multi-query transaction" % (r["histories"], PROFILE, steps),
        failures=failures, disagreements=r["disagreements"],
        assumptions=["the database starts empty (db_new) or in any state satisfying the stated invariants"],
    )
