# C22 — user types stored with the derive macros read back unchanged
import os
import vlib
from checks.common import *

META = dict(
    engine="coq+hx_core",
    technique="Coq proof (induction over struct descriptions and field kinds, on top of the C20 codec round trip) + differential correspondence of the extracted model with the real "
              "derive macros on a generated corpus of user types + direct round-trip / update oracle on DbMemory and Db",
    level_text="<filled below>",
    design_ref="DESIGN.md §5 C22",
    level_note="Defect found by this check and repaired (fix: 61eb706, fixes/C22-flatten-option-keys.diff): a type WITHOUT an own Option field that flattened a struct WITH one selected too few keys "
               "(flattened required field: NotFound; all-optional flattened struct: stored value silently read back as None). The model carries both revisions of db_keys; the check determines which one "
               "/repo implements and reports a return of the defect as class type-roundtrip-flatten-option-keys (a VIOLATION). Trusted: Coq kernel, extraction (ExtrOcamlBasic), OCaml driver, Rust harness/generators and harness/gen_user_types.py (one description -> Rust types + model descriptions). "
               "f32 / Vec<f32> fields are outside the model (float widening); they are checked on the implementation only (NaN payloads compared as a class). "
               "`#[agdb(flatten)] Option<T>` and a non-optional `db_id: QueryId` do not compile with the macro and are therefore not in the corpus.",
)
META["level_text"] = (
    "Machine-checked on the model DeriveType.v (struct descriptions with plain / optional / flattened / skipped / db_id fields; kinds u64 i64 f64 u32 i32 bool String Vec<u8> "
    "Vec<i64|u64|f64|String|i32|u32|bool>, custom value types and vectors of them through the C20 codec): C22_conversion_roundtrip (every kind converts to a DbValue and back exactly: checked "
    "narrowing succeeds on widened values, empty Vec<custom> through Bytes([]); full), C22_roundtrip (for every description with distinct stored keys, also through flatten, and every well-typed value, "
    "from_db_element on ANY pair list answering the lookups of the struct's keys like to_db_values — extra unrelated pairs, any order keeping first occurrences — is Ok of the value with db_id := Some(id); full), "
    "C22_roundtrip_stored / C22_roundtrip_in_context (instances: the stored pairs incl. the db_element_id pair of DbElement types; between foreign pairs), C22_update_by_id (on the validated "
    "database model, every revision: InsertValuesQuery{ids:[id], Multi[to_db_values]} — what insert().element(&v) with db_id = Some(id) builds — on an existing element changes exactly that element's pair list "
    "by insert-or-replace per key and nothing else in values, aliases, graph; full), C22_select_is_query (the model selection is Queries.exec_select of the validated database model), C22_insert_select_roundtrip (end to end on the database model, every revision, every state satisfying the C08-C11 invariant: InsertValuesQuery{ids:[Id(0)], Multi[to_db_values]} creates a node holding exactly those pairs and select().elements::<T>().ids(id) + from_db_element gives the value with db_id = Some(id); full), C22_select_roundtrip (select().elements::<T>().ids(id) = SelectValuesQuery{keys: db_keys} on the stored pairs followed by from_db_element gives the value, "
    "with the repaired db_keys; full), C22_flatten_option_keys_pinned_refuted (witness of the repaired db_keys defect, both revisions). All theorems are about the model; f32 fields are outside it. "
    "Tie to /repo (every run): 25 generated user types (#[derive(DbType)] / #[derive(DbElement)], custom value types with DbSerialize + DbValue + DbTypeMarker, enums as values, "
    "flatten (nested twice), skip, rename, db_id as Option<DbId> / Option<QueryId> / DbId); random values incl. None options, empty vectors, boundary integers, all float classes; inserted singly "
    "(insert().element(&v)) and in batches (.elements(&vs)) into DbMemory and Db, selected with select().elements::<T>().ids(..) and .search(), compared field by field on bit patterns, updated "
    "through db_id (full dump of every other element before/after must be identical, the element's pairs must be the insert-or-replace of the new pairs); the extracted model must produce the same "
    "to_db_values pairs (= the stored pairs), the same db_keys, the same selected pairs, the same from_db_element value and the same updated pair list.")


def run(ctx):
    n = 60 if ctx.tier == "quick" else 1500
    exe, dlog = vlib.build_driver()
    if exe is None:
        raise RuntimeError("driver build failed: " + dlog)
    vlib.sh(["python3", os.path.join(vlib.HARNESS, "gen_types.py")], check=True)
    vlib.sh(["python3", os.path.join(vlib.HARNESS, "gen_user_types.py")], check=True)
    tdir, blog = vlib.cargo_build("hx_core", "release")
    if tdir is None:
        raise RuntimeError("harness build failed: " + blog)
    w = ctx.workdir
    rc, out = vlib.sh([os.path.join(tdir, "hx_core"), "c22", "--seed", str(ctx.seed), "--n", str(n), "--out", w], timeout=3000)
    if rc != 0:
        raise RuntimeError("harness failed: " + out[-2000:])
    rc, err = run_driver(exe, os.path.join(w, "cases.txt"), os.path.join(w, "model.txt"))
    cases, model, impl = (read_lines(os.path.join(w, f)) for f in ("cases.txt", "model.txt", "impl.txt"))
    notes = []
    # which revision of db_keys does /repo implement?  every `derive keys f` / `derive select f` case exists for f = 0 (pinned macro)
    # and f = 1 (fixes/C22-flatten-option-keys.diff applied); the implementation must agree with ONE of them on all types
    def rev_ok(f):
        return all(m == x for c, m, x in zip(cases, model, impl) if c.startswith("derive keys %d " % f))
    rev = 1 if rev_ok(1) else (0 if rev_ok(0) else None)
    dis = []
    if rev is None:
        dis.append(dict(what="db_keys of the corpus types agree with neither revision of the model",
                        case="; ".join(c[:200] for c, m, x in zip(cases, model, impl) if c.startswith("derive keys 1 ") and m != x)[:1500]))
        rev = 1
    notes.append("db_keys revision implemented by /repo: %s" % ("fixed (flattened Option fields make the key list empty)" if rev == 1 else "pinned (flatten-option-keys finding present)"))
    keep = [i for i, c in enumerate(cases) if not (c.startswith("derive keys %d " % (1 - rev)) or c.startswith("derive select %d " % (1 - rev)))]
    cases, model, impl = ([l[i] for i in keep] if len(l) == len(impl) else l for l in (cases, model, impl))
    dis += diff_lines(cases, model, impl, limit=8)
    failures = [dict(cls=l.split(" ")[0], what=l[:5000]) for l in read_lines(os.path.join(w, "oracle.txt"))]
    dist, ev, nt, samples = merge_stats([os.path.join(w, "stats.json")])
    for c in cases:
        k = "model-case:" + " ".join(c.split(" ")[:2])
        dist[k] = dist.get(k, 0) + 1
    return dict(
        evaluations=ev, distinct_nontrivial=nt, samples=samples, dist=dist, notes=notes, traces_validated=len(cases),
        rule="per user type of the corpus (25 top-level types, 7 flattened inner types, 5 custom value types): %d values on DbMemory and %d on Db (memory mapped file); 40%% single inserts, "
             "30%% batches of 2-5, 30%% updates through db_id of a random earlier element; every insert followed by select().ids (stored pairs = to_db_values), select().elements::<T>().ids "
             "(field-wise equality on bit patterns, db_id = Some(id), skipped fields default); at the end select().elements::<T>().search().elements() must return exactly the inserted elements "
             "(DbElement types share the database with two foreign nodes); evaluations = elements read back and compared; non-trivial = (type, database) runs with >= 3 live elements; every "
             "to_db_values / stored pair list / db_keys / selected pair list / from_db_element result / updated pair list compared with the extracted model" % (n, max(n // 4, 4)),
        failures=failures, disagreements=dis,
        assumptions=["field names of a type are distinct, also through flatten (the derive macro's documented requirement)",
                     "values are those a Rust program can hold (integers in range, lengths < 2^60)"],
    )


def search(ctx, broken):
    """a proof or the correspondence broke without a failing input: run the direct round-trip / update oracle with a
    larger budget and other seeds on the implementation"""
    tdir, blog = vlib.cargo_build("hx_core", "release")
    if tdir is None:
        return []
    found = []
    for k in range(3):
        w = os.path.join(ctx.workdir, "search%d" % k)
        os.makedirs(w, exist_ok=True)
        rc, out = vlib.sh([os.path.join(tdir, "hx_core"), "c22", "--seed", str(ctx.seed * 7919 + k + 1), "--n", "600", "--out", w], timeout=3000)
        found += [dict(cls=l.split(" ")[0], what=l[:5000]) for l in read_lines(os.path.join(w, "oracle.txt"))]
        if found:
            break
    return found[:5]
