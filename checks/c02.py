# C02 — a database interrupted by a crash always reopens and is fully readable
from checks.crash_common import *

META = dict(
    engine="coq+hx_core",
    technique="Coq proof of the reduction of every crash state to a flush point (corollary of C01) + exhaustive-per-history reopening of crash snapshots of the real database",
    level_text="PARTIAL. Machine-checked: C02_reduction_partial — at every crash cut of every storage-call list the recovered file equals the file at the completion of some flush (or the initial file), and the "
               "recovery log is empty afterwards. Not proved: that the bytes at a flush point load into consistent collection structures; this is checked for every sampled crash snapshot of generated histories: "
               "reopen with DbFile, Db, DbAny(file) and DbAny(mapped) in turn, read every element, property, alias and index and the adjacency lists, and evaluate the state invariants. The *_guarded theorems state the same for the recovery with the position check of apply_wal_record (model recover_g, fixes/C07-wal-position.diff): on these logs the check never fires (C01_guarded_recovery_agrees), so the statements hold for a tree with or without it. Round 2/4 (collection and database level, models and relation as in C05): C02_{vec,map,graph}_loads_partial — in every state of the record map in which a collection's representation invariant holds its loader succeeds and reads back the content; C02_db_loads_partial — in EVERY state of the record store in which the whole database is represented (stored_db: root record -> graph, two alias tables, index vector with one multi-map per index, values vector with one DbVec<DbKeyValue> per element) the composition of ALL loaders (DbImpl::new followed by reading every component to the end: the extracted load_db, and the loader program on the model of storage.rs) succeeds and returns the represented database up to the order a hash table does not keep; non-vacuity C02_db_sample. Still not proved: that the record map INSIDE an operation cut by a crash is never observed (C03 + C01 composed) and that stored_db holds at every flush point of a database history (the simulation of db.rs's mutations, C05_db_operations_preserve_stored_db, named in Props/C05.v); both are covered by the crash snapshots.",
    design_ref="DESIGN.md §5 C02",
    level_note="Trusted: Coq kernel, Rust harness incl. snapshot routine, std::fs. Readability of flush-point states rests on enumeration of the crash snapshots of generated histories.",
)
CLASSES = ("crash-open", "crash-unreadable", "crash-inconsistent", "crash-create", "panic", "crash-harness-died")


def run(ctx):
    n, steps, sample = (6, 6, 60) if ctx.tier == "quick" else (60, 12, 300)
    failures, dist, ev, nt, samples = run_crash(ctx, n, steps, sample)
    return dict(evaluations=ev, distinct_nontrivial=nt, samples=samples, dist=dist, rule=RULE % (n * 8, steps, sample),
                failures=[f for f in failures if f["cls"].startswith(CLASSES)], disagreements=[],
                assumptions=["file-system calls persist in issue order; torn writes are prefixes"])
