# C02 — a database interrupted by a crash always reopens and is fully readable
from checks.crash_common import *

META = dict(
    engine="coq+hx_core",
    technique="Coq proof of the reduction of every crash state to a flush point (corollary of C01) + exhaustive-per-history reopening of crash snapshots of the real database",
    level_text="PARTIAL. Machine-checked: C02_reduction_partial — at every crash cut of every storage-call list the recovered file equals the file at the completion of some flush (or the initial file), and the "
               "recovery log is empty afterwards. Not proved: that the bytes at a flush point load into consistent collection structures; this is checked for every sampled crash snapshot of generated histories: "
               "reopen with DbFile, Db, DbAny(file) and DbAny(mapped) in turn, read every element, property, alias and index and the adjacency lists, and evaluate the state invariants. The *_guarded theorems state the same for the recovery with the position check of apply_wal_record (model recover_g, fixes/C07-wal-position.diff): on these logs the check never fires (C01_guarded_recovery_agrees), so the statements hold for a tree with or without it.",
    design_ref="DESIGN.md §5 C02",
    level_note="Trusted: Coq kernel, Rust harness incl. snapshot routine, std::fs. Readability of flush-point states rests on enumeration of the crash snapshots of generated histories.",
)
CLASSES = ("crash-open", "crash-unreadable", "crash-inconsistent", "crash-create", "panic", "crash-harness-died")


def run(ctx):
    n, steps, sample = (6, 6, 60) if ctx.tier == "quick" else (60, 12, 300)
    failures, dist, ev, nt, samples = run_crash(ctx, n, steps, sample)
    return dict(evaluations=ev, distinct_nontrivial=nt, samples=samples, dist=dist, rule=RULE % (n * 8, steps, sample),
                failures=[f for f in failures if f["cls"].startswith(CLASSES)], disagreements=[],
                assumptions=["file-system calls persist in issue order; torn writes are prefixes"])
