# shared runner of the DB-level crash harness (C02, C03): `hx_core crash`, several seeds in parallel
import os, subprocess, json
import vlib
from checks.common import *


def run_crash(ctx, n, steps, sample, procs=8):
    tdir, blog = vlib.cargo_build("hx_core", "release")
    if tdir is None:
        raise RuntimeError("harness build failed: " + blog)
    ps = []
    for i in range(procs):
        w = os.path.join(ctx.workdir, "crash%d" % i)
        os.makedirs(w, exist_ok=True)
        cmd = [os.path.join(tdir, "hx_core"), "crash", "--seed", str(ctx.seed * 1000 + i), "--n", str(n), "--steps", str(steps),
               "--sample", str(sample), "--out", w]
        ps.append((w, subprocess.Popen(cmd, stdout=subprocess.PIPE, stderr=subprocess.STDOUT)))
    failures, stats = [], []
    for w, p in ps:
        out, _ = p.communicate(timeout=3000)
        if p.returncode != 0:
            failures.append(dict(cls="crash-harness-died", what="harness exit %s: %s" % (p.returncode, out.decode("utf-8", "replace")[-1500:])))
        for l in read_lines(os.path.join(w, "oracle.txt")):
            failures.append(dict(cls=l.split(" ")[0], what=l[:6000]))
        stats.append(os.path.join(w, "stats.json"))
    dist, ev, nt, samples = merge_stats(stats)
    return failures, dist, ev, nt, samples[:3]


RULE = ("%d generated query histories (<= %d queries / multi-query transactions incl. failing ones, profile all/txn) on DbFile and Db (memory mapped) through a "
        "recording StorageData wrapper; the cfg(agdb_verif) hook snapshots the data file and the recovery log before every mutating file-system call "
        "(sampled at %d per mille, plus torn prefixes of the pending call, incl. the creation of the database and the optimize on close); "
        "evaluations = snapshots reopened with DbFile/Db/DbAny, fully read (elements, values, aliases, indexes, adjacency), state invariants checked, and the ordered dump "
        "compared with the dumps before / after the interrupted query; non-trivial = history with a multi-query transaction and > 50 snapshots")
