# C18 — elements search visits every existing element once in id-slot order
# (database model coq/theories/Graph.v Search.v + hx_core `db` harness, profile `search`)
import vlib
from checks.db_common import run_db, add_big, spec_level

META = dict(
    engine="coq+hx_core",
    technique="Coq proof about the executable database model + differential correspondence of the extracted model with the real agdb on generated query histories",
    level_text="Machine-checked theorems (coq/Props/C18.v, all full, for every revision/database/condition list, no bound) about the executable model of "
               "ElementSearch + SearchQuery::search: conditions never yield Finish (C18_eval_data_nofinish, C18_conditions_never_finish), hence the elements "
               "search with the default handler walks the whole element list `elements (gr d)` front to back, handing each element its position as distance, "
               "and returns exactly the accepted ones: elements_search = positional filter ifilter (C18_elements_search_is_filter, C18_ifilter_def, "
               "C18_ifilter_In exact membership by position); the result contains only listed elements, is an order-preserving sub-sequence and duplicate-free "
               "when the list is (C18_ifilter_incl, C18_ifilter_sublist, C18_ifilter_mask, C18_ifilter_NoDup, C18_sublist_In/_NoDup/_StronglySorted), and is a "
               "plain filter for distance-independent conditions (C18_ifilter_const). Query level: C18_search_elements_plain (no limit/offset/order), "
               "C18_elements_search_limit_offset + C18_search_elements_unordered (streamed limit/offset handlers = slice of the filtered list, limit/offset >= 0 "
               "as u64), C18_search_elements_ordered (order_by: stable sort then SearchQuery::slice) and C18_slice_ids_is_zslice (with the slice-clamp fix both "
               "slices coincide). C18_nonvacuous: a concrete history with removal and slot reuse. GRAPH PART (all full, for every graph value): the iteration "
               "`elements g` (model of GraphIterator/next_element) lists exactly the existing elements with the sign of their kind (C18_elements_exact: In i <-> "
               "graph_index g i), in strictly increasing |id| (C18_elements_sorted, C18_elements_order), each at exactly one position (C18_elements_nodup, "
               "C18_elements_once), never a freed slot / slot 0 / a slot beyond the arrays (C18_elements_not_freed); on every graph reachable by a history of "
               "insertions and removals it is exactly the abstract nodes and edge ids of C08 (C18_elements_abstract with C08_history_refines); combined: "
               "C18_elements_search_result (element i at position n is returned iff accepted at distance n; result is an order-preserving selection, strictly "
               "increasing in |id|, duplicate-free, existing elements only) and C18_elements_search_existing (any handler: never a non-existing, e.g. removed, id). "
               "The model is tied to /repo on every run by executing generated histories (inserts, removals with id reuse, then searches of all algorithms incl. "
               "elements searches with conditions, limits, offsets and order_by) on the real database and on the extracted model and comparing every result.",
    design_ref="DESIGN.md §5 C18",
    level_note="Trusted: Coq kernel, extraction (ExtrOcamlBasic), OCaml driver, Rust harness/generators. Theorems are about the model (theories/Graph.v, Search.v); "
               "the tie to the code is differential execution of generated histories (every query result and periodic full dumps compared).",
)

PROFILE = "search"                      # generator profile: graph kv alias index txn search all hash
CLASSES = ("graph-",)                   # oracle failure classes that are violations of THIS property
COMMON = ("panic", "read-error")        # failures that are violations wherever they show up


def run(ctx):
    n, steps = (150, 30) if ctx.tier == "quick" else (4000, 60)
    r = run_db(ctx, PROFILE, n, steps)
    r = add_big(ctx, r, 30 if ctx.tier == "quick" else 600)
    # second stream: the C08 generator (insert/remove-heavy, much larger graphs with freed and reused slots); its dumps
    # list the elements through an unconditioned elements search and its selects contain searches of all algorithms
    g = run_db(ctx, "graph", n, steps, sub="db_graph", seed_off=1000003)
    failures = [f for f in r["failures"] + g["failures"] if f["cls"].startswith(CLASSES) or f["cls"] in COMMON]
    failures += [f for f in spec_level(dict(failures=[], disagreements=r["disagreements"] + g["disagreements"])) if f["cls"] == "model-mismatch"]
    dist = dict(r["dist"])
    for k, v in g["dist"].items():
        dist["graph-profile:" + k] = v
    return dict(
        evaluations=r["cases"] + g["cases"], distinct_nontrivial=r["nontrivial"] + g["nontrivial"],
        samples=(r["samples"][:2] + g["samples"][:1]), dist=dist,
        rule="%d generated query histories (profile %s, <= %d steps: ~45%% mutations (node/edge/alias/value/index inserts and removals, with slot reuse) over live "
             "ids/aliases plus an invalid stream, ~55%% search queries of which ~20%% use the Elements algorithm, with random conditions (distance, edge/node, "
             "edge counts, ids, key-values, keys, nested where; modifiers not/beyond/not-beyond), limit/offset and order_by); every query result and a full dump "
             "every 8 steps (the dump lists the elements through an unconditioned elements search) compared line by line with the extracted Coq model; graph "
             "state invariants (node count, no shared id magnitude, no dangling edge, in/out lists) evaluated on the implementation's dumps; "
             "plus %d histories of profile graph (the C08 generator: ~70%% node/edge inserts and removals with id reuse, ~22%% selects incl. searches, "
             "~8%% transactions) checked the same way; "
             "non-trivial = history that had, at a dump point, >= 2 nodes and an edge (or, in the graph profile, a rolled-back multi-query transaction)"
             % (r["histories"], PROFILE, steps, g["histories"]),
        failures=failures, disagreements=r["disagreements"] + g["disagreements"],
        assumptions=["limit and offset are non-negative (u64 in the code)",
                     "generated insert value lists have distinct keys (generator restriction, irrelevant to the element order)"],
    )
