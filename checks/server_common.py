# shared by c24.py / c25.py / c26.py: build the driver, the hx_server harness and the real server
# binary, run one harness stream, run the extracted model on the same case file, diff.
import os, re, subprocess
import vlib
from checks.common import *

CORPUS = os.path.join(vlib.VERIF, "corpus")


def prepare():
    exe, dlog = vlib.build_driver()
    if exe is None:
        raise RuntimeError("driver build failed: " + dlog)
    tdir, blog = vlib.cargo_build("hx_server", "release")
    if tdir is None:
        raise RuntimeError("harness build failed: " + blog)
    srv, slog = vlib.build_server()
    if srv is None:
        raise RuntimeError("agdb_server build failed (source %s): %s" % (vlib.server_src(), slog))
    return exe, os.path.join(tdir, "hx_server"), srv


def corpus_files(prop):
    d = os.path.join(CORPUS, prop)
    if not os.path.isdir(d):
        return []
    return [os.path.join(d, f) for f in sorted(os.listdir(d)) if f.endswith(".txt")]


def run_stream(ctx, exe, hx, srv, sub, args, timeout=7200, suffixes=("",)):
    """run `hx_server <args>` into workdir/<sub>; model the case files; returns
    dict(cases, model, impl, oracle, stats=[paths])"""
    w = os.path.join(ctx.workdir, sub)
    os.makedirs(w, exist_ok=True)
    rc, out = vlib.sh([hx] + args + ["--server", srv, "--out", w], timeout=timeout)
    if rc != 0:
        raise RuntimeError("harness failed (%s): %s" % (" ".join(args), out[-2000:]))
    cases, model, impl = [], [], []
    for sfx in suffixes:
        cp = os.path.join(w, "cases%s.txt" % sfx)
        if not os.path.exists(cp):
            continue
        rc, err = run_driver(exe, cp, os.path.join(w, "model%s.txt" % sfx))
        cases += read_lines(cp)
        model += read_lines(os.path.join(w, "model%s.txt" % sfx))
        impl += read_lines(os.path.join(w, "impl%s.txt" % sfx))
    return dict(cases=cases, model=model, impl=impl, oracle=read_lines(os.path.join(w, "oracle.txt")),
                stats=[os.path.join(w, "stats.json")])


REQ_RE = re.compile(r"^server reqx? \S+ (.*)$")


def oracle_failures(lines):
    """oracle lines are `<class> <description incl. the request and the whole sequence>`"""
    return [dict(cls=l.split(" ")[0], what=l[:6000]) for l in lines if l.strip()]


def diff_server(r, oracle_lines):
    """line-by-line model vs implementation; a disagreement at a request for which the harness's
    direct oracle already reported a failure carries that failure's class"""
    by_req = {}
    for l in oracle_lines:
        m = re.search(r"request `([^`]*)`", l)
        if m:
            by_req[m.group(1)] = l.split(" ")[0]

    def cls(c, m, x):
        mm = REQ_RE.match(c)
        return by_req.get(mm.group(1)) if mm else None
    return diff_lines(r["cases"], r["model"], r["impl"], cls=cls)


def driver_query(exe, lines):
    p = subprocess.run([exe], input=("\n".join(lines) + "\n").encode(), stdout=subprocess.PIPE, stderr=subprocess.PIPE, timeout=600)
    return p.stdout.decode("utf-8", "replace").splitlines()
