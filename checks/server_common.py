# shared by c24.py / c25.py / c26.py: build the driver, the hx_server harness and the real server
# binary, run one harness stream, run the extracted model on the same case file, diff.
import os, re, subprocess
import vlib
from checks.common import *

CORPUS = os.path.join(vlib.VERIF, "corpus")


def prepare():
    exe, dlog = vlib.build_driver()
    if exe is None:
        raise RuntimeError("driver build failed: " + dlog)
    tdir, blog = vlib.cargo_build("hx_server", "release")
    if tdir is None:
        raise RuntimeError("harness build failed: " + blog)
    srv, slog = vlib.build_server()
    if srv is None:
        raise RuntimeError("agdb_server build failed (source %s): %s" % (vlib.server_src(), slog))
    return exe, os.path.join(tdir, "hx_server"), srv


def corpus_files(prop):
    d = os.path.join(CORPUS, prop)
    if not os.path.isdir(d):
        return []
    return [os.path.join(d, f) for f in sorted(os.listdir(d)) if f.endswith(".txt")]


def run_stream(ctx, exe, hx, srv, sub, args, timeout=7200, suffixes=("",)):
    """run `hx_server <args>` into workdir/<sub>; model the case files; returns
    dict(cases, model, impl, oracle, stats=[paths])"""
    w = os.path.join(ctx.workdir, sub)
    os.makedirs(w, exist_ok=True)
    rc, out = vlib.sh([hx] + args + ["--server", srv, "--out", w], timeout=timeout)
    if rc != 0:
        raise RuntimeError("harness failed (%s): %s" % (" ".join(args), out[-2000:]))
    cases, model, impl = [], [], []
    for sfx in suffixes:
        cp = os.path.join(w, "cases%s.txt" % sfx)
        if not os.path.exists(cp):
            continue
        rc, err = run_driver(exe, cp, os.path.join(w, "model%s.txt" % sfx))
        cases += read_lines(cp)
        model += read_lines(os.path.join(w, "model%s.txt" % sfx))
        impl += read_lines(os.path.join(w, "impl%s.txt" % sfx))
    return dict(cases=cases, model=model, impl=impl, oracle=read_lines(os.path.join(w, "oracle.txt")),
                stats=[os.path.join(w, "stats.json")])


REQ_RE = re.compile(r"^server reqx? \S+ (.*)$")


def oracle_failures(lines):
    """oracle lines are `<class> <description incl. the request and the whole sequence>`"""
    return [dict(cls=l.split(" ")[0], what=l[:6000]) for l in lines if l.strip()]


def diff_server(r, oracle_lines):
    """line-by-line model vs implementation; a disagreement at a request for which the harness's
    direct oracle already reported a failure carries that failure's class"""
    by_req = {}
    for l in oracle_lines:
        m = re.search(r"request `([^`]*)`", l)
        if m:
            by_req[m.group(1)] = l.split(" ")[0]

    def cls(c, m, x):
        mm = REQ_RE.match(c)
        return by_req.get(mm.group(1)) if mm else None
    return diff_lines(r["cases"], r["model"], r["impl"], cls=cls)


def spec_failures(r):
    """The server model (Auth.v) is the property's own oracle (a permission / batch model with proved theorems): the FIRST request of a
    sequence on which the real server's answer or observable state differs from it is reported as a failure of class `model-mismatch`
    carrying the request sequence since the last reset — a concrete failing history instead of a bare correspondence break."""
    cases, model, impl = r["cases"], r["model"], r["impl"]
    for i, (c, m, x) in enumerate(zip(cases, model, impl)):
        if m != x:
            start = max([j for j in range(i + 1) if " reset" in cases[j][:16]] or [0])
            seq = [cases[j] for j in range(start, i + 1)]
            return [dict(cls="model-mismatch", what="request %s: server answered/ended in `%s`, the permission model says `%s`; sequence: %s"
                         % (c[:300], x[:1200], m[:1200], " ;; ".join(seq)[-6000:]), sequence=seq[-400:])]
    return []


def driver_query(exe, lines):
    p = subprocess.run([exe], input=("\n".join(lines) + "\n").encode(), stdout=subprocess.PIPE, stderr=subprocess.PIPE, timeout=600)
    return p.stdout.decode("utf-8", "replace").splitlines()


# --------------------------------------------------------------------------
# Tier A: tables read from the current source tree and compared with the model's tables
# --------------------------------------------------------------------------

def _snake(name):
    return re.sub(r"(?<!^)([A-Z])", r"_\1", name).lower()


def source_query_tables():
    """(write kinds of utilities.rs required_role, kinds accepted by user_db.rs t_exec,
    kinds audited by t_exec_mut) parsed from the server source"""
    src = os.path.join(vlib.server_src(), "agdb_server", "src")
    util = open(os.path.join(src, "utilities.rs")).read()
    m = re.search(r"fn required_role\(.*?\n}\n", util, re.S)
    write = set(_snake(x) for x in re.findall(r"QueryType::(\w+)\(_\)", m.group(0).split("return DbUserRole::Write")[0])) if m else None
    udb = open(os.path.join(src, "db_pool", "user_db.rs")).read()
    m = re.search(r"fn t_exec\(.*?\n}\n", udb, re.S)
    read = set(_snake(x) for x in re.findall(r"QueryType::(\w+)\(", m.group(0))) if m else None
    m = re.search(r"fn t_exec_mut\(.*?\n}\n", udb, re.S)
    audited = None
    if m:
        audited = set()
        for blk in re.split(r"(?=QueryType::\w+\(q\) => )", m.group(0))[1:]:
            k = re.match(r"QueryType::(\w+)\(q\)", blk).group(1)
            if "do_audit = true" in blk.split("};")[0]:
                audited.add(_snake(k))
    return write, read, audited


def documented_matrix():
    """endpoint -> documented permission, from the table of the server documentation"""
    p = os.path.join(vlib.server_src(), "agdb_web", "content", "docs", "03.references", "02.server.md")
    res = {}
    if not os.path.exists(p):
        return None
    for l in open(p, errors="replace"):
        m = re.match(r"^\|\s*/api/v1/db/\\\{owner\\\}/\\\{db\\\}/(\S+)\s*\|\s*(\w+)\s*\|", l)
        if m:
            res[m.group(1).replace("/", "_")] = m.group(2)
    return res


def tier_a(exe):
    """disagreement dicts for every table of the model that no longer matches the source tree"""
    out = []
    kinds = driver_query(exe, ["server kinds"])
    model = {}
    for name, w, r, a in re.findall(r"\((\w+) (write|read) (exec|noexec) (audited|silent)\)", " ".join(kinds)):
        model[name] = (w == "write", r == "exec", a == "audited")
    write, read, audited = source_query_tables()
    if write is None or read is None or audited is None:
        out.append(dict(what="tier A: could not parse required_role / t_exec / t_exec_mut from the server source"))
    else:
        for k, (w, r, a) in sorted(model.items()):
            src = (k in write, k in read, k in audited)
            if src != (w, r, a):
                out.append(dict(what="tier A: query kind table differs", case=k, model="write=%s exec=%s audited=%s" % (w, r, a),
                                impl="write=%s exec=%s audited=%s" % src))
        for k in sorted((write | read | audited) - set(model)):
            out.append(dict(what="tier A: query kind unknown to the model", case=k, model="-", impl="present"))
    doc = documented_matrix()
    mdoc = dict(re.findall(r"\((\w+) (\w+)\)", " ".join(driver_query(exe, ["server docperm"]))))
    if not doc:
        out.append(dict(what="tier A: documented permission table not found in the server documentation"))
    else:
        for k in sorted(set(doc) | set(mdoc)):
            if k == "list":
                continue                       # /db/list takes no database; any authenticated user
            if doc.get(k) != mdoc.get(k):
                out.append(dict(what="tier A: documented permission differs from the model's doc_perm", case=k,
                                model=str(mdoc.get(k)), impl=str(doc.get(k))))
    return out
