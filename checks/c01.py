# C01 — log recovery restores the last committed storage content at every crash point
import os
import vlib
from checks.common import *

META = dict(
    engine="coq+hx_core",
    technique="Coq proof (invariant over all file-system call prefixes incl. torn calls) + differential correspondence of call traces and recovered contents, crash snapshots taken through the cfg(agdb_verif) hook",
    level_text="Machine-checked theorem C01_recover_restores: for every committed content, every list of storage-data calls (write/resize/flush; writes start inside the file or at its end) "
               "and every crash cut (k completed file-system calls + the next one torn after j bytes, on the data file or on the log file) recovery yields exactly the content at the last completed flush, "
               "with an empty log; plus C01_repair_torn_tail and witnesses that each of the three repaired defects broke it. C01_guarded_recovery_agrees: under the same hypotheses recovery WITH the position guard of "
               "apply_wal_record (a log record beyond the current end of the file is an error; model recover_g) succeeds and returns the same state, i.e. the guard never fires on a log the storage wrote; "
               "C01_guard_fires: it does on a record beyond the end. C01_recovery_restartable: recovery modelled as a sequence of file-system calls (cut the torn tail; per record newest first guard, undo, "
               "remove the record from the log; clear) is itself crash safe: after a crash cut of normal operation and ANY number of recoveries each interrupted at any of its calls (incl. a torn undo write) the next "
               "recovery completes without the guard firing and yields the content of the last completed flush; C01_recovery_calls_agree: on all files the call sequence ends in what the recovery function returns; "
               "C01_simple_guard_refuted: with the guard but WITHOUT removing undone records an interrupted recovery leaves a file that can never be opened again (why the first version of the repair was rejected). "
               "The check reads off the source tree whether the guard is present and compares with recover_g / recovery_calls true or recover / recovery_calls false accordingly. Tie to /repo: generated Storage programs (insert, insert-at incl. beyond the end, "
               "replace, resize, move, remove, optimize, nested transactions, storage dropped with an open transaction) run on the real Storage<FileStorage> and Storage<FileStorageMemoryMapped>; the hook snapshots both files before every "
               "mutating call (+ torn variants); every snapshot is recovered by the real FileStorage::new and compared with the committed bytes (direct oracle); the implementation's call trace and recovered "
               "contents are compared with the extracted model; the hypothesis 'no write starts beyond the end' is checked on every StorageData call the real Storage issued; "
               "snapshots with a damaged log (positions moved, garbage records) are recovered by the real code and compared with the model (bytes or error); the file-system calls the real recovery issues "
               "(FileStorage::new on sampled snapshots and damaged logs, Drop rolling back an open transaction) are compared with the model's recovery_calls; snapshots taken INSIDE the rollback of Drop "
               "(recovery interrupted) are recovered by the real code (direct oracle: committed bytes) and by the model.",
    design_ref="DESIGN.md §5 C01",
    level_note="Trusted: Coq kernel, extraction, OCaml driver, Rust harness incl. its snapshot/torn-copy routine; std::fs semantics; calls persist in issue order and torn writes are prefixes (fsync ordering is outside "
               "the code's own contract). The lifting 'every Storage operation sequence issues only well-positioned calls' is checked on the generated programs, not proved.",
)


def detect_guard():
    """does the source tree contain the position guard of FileStorage::apply_wal_record (fixes/C07-wal-position.diff)?
    Then FileStorage::new corresponds to the model's recover_g, otherwise to recover."""
    try:
        return "beyond the end of the file" in open(os.path.join(vlib.REPO, "agdb", "src", "storage", "file_storage.rs")).read()
    except OSError:
        return False


def run(ctx):
    guard = detect_guard()
    n, steps = (120, 14) if ctx.tier == "quick" else (1000, 30)
    exe, dlog = vlib.build_driver()
    if exe is None:
        raise RuntimeError("driver build failed: " + dlog)
    tdir, blog = vlib.cargo_build("hx_core", "release")
    if tdir is None:
        raise RuntimeError("harness build failed: " + blog)
    w = ctx.workdir
    rc, out = vlib.sh([os.path.join(tdir, "hx_core"), "c01", "--seed", str(ctx.seed), "--n", str(n), "--steps", str(steps), "--guard", "1" if guard else "0", "--out", w], timeout=3000)
    if rc != 0:
        raise RuntimeError("harness failed: " + out[-2000:])
    rc, err = run_driver(exe, os.path.join(w, "cases.txt"), os.path.join(w, "model.txt"))
    cases, model, impl = (read_lines(os.path.join(w, f)) for f in ("cases.txt", "model.txt", "impl.txt"))
    if len(cases) == len(model) == len(impl):
        # unguarded tree: a damaged log with a record beyond the current end of the data extends the file sparsely, which
        # FileWal.v does not model (OpenFile.v / C07 does): the model answers `beyond`, nothing to compare
        keep = [i for i in range(len(cases)) if not (model[i] == "beyond" and not guard)]
        skipped = len(cases) - len(keep)
        cases, model, impl = ([x[i] for i in keep] for x in (cases, model, impl))
    else:
        skipped = 0
    dis = diff_lines(cases, model, impl, limit=8)
    failures = [dict(cls=l.split(" ")[0], what=l[:5000]) for l in read_lines(os.path.join(w, "oracle.txt"))]
    dist, ev, nt, samples = merge_stats([os.path.join(w, "stats.json")])
    return dict(
        evaluations=ev, distinct_nontrivial=nt, samples=samples, dist=dist,
        rule="%d generated storage programs (<= %d operations, value sizes around the 16-byte split threshold, nesting <= 4, half of them dropped with an open transaction), 2/3 on FileStorage and 1/3 on "
             "FileStorageMemoryMapped; evaluations = crash snapshots recovered by the real code (every mutating call + up to 4 torn prefixes per log append and 3 per data write); non-trivial = program with "
             "a nested transaction and more than 20 snapshots; per program the full call trace and 16 sampled cuts are also compared with the model "
             "(%s); plus per program up to 6 snapshots whose LOG IS DAMAGED (a record's position moved inside the file / to its end / up to 300 bytes beyond it, a garbage "
             "record appended, prepended, or alone) recovered by the real FileStorage::new and compared with the model's recovery of the same files (bytes | error) and its call sequence; per program the "
             "call sequence of the real recovery on 6 sampled snapshots and of Drop, and 6 snapshots taken inside Drop's rollback recovered by the model%s"
             % (n, steps, "position guard detected in the tree: the model is recover_g" if guard else "no position guard in the tree: the model is recover",
                "" if guard else "; %d of them lie beyond the end and are not compared on this unguarded tree" % skipped),
        failures=failures, disagreements=dis,
        assumptions=["torn writes are prefixes; file-system calls persist in issue order"],
        notes=["position guard of apply_wal_record in the tree: %s" % ("yes (model: recover_g)" if guard else "no (model: recover)")],
    )
