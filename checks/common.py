# helpers shared by the per-property check modules
import json, os, subprocess
import vlib


def run_driver(exe, cases_path, out_path, timeout=1800):
    with open(cases_path, "rb") as fi, open(out_path, "wb") as fo:
        p = subprocess.run([exe], stdin=fi, stdout=fo, stderr=subprocess.PIPE, timeout=timeout)
    return p.returncode, p.stderr.decode("utf-8", "replace")[-2000:]


def read_lines(p):
    if not os.path.exists(p):
        return []
    with open(p, errors="replace") as f:
        return [l.rstrip("\n") for l in f]


def diff_lines(cases, model, impl, limit=20, cls=None):
    """line-by-line comparison; returns list of disagreement dicts"""
    out = []
    if len(model) != len(impl) or len(cases) != len(impl):
        out.append(dict(what="line count differs", detail="cases=%d model=%d impl=%d" % (len(cases), len(model), len(impl))))
    for i, (c, m, x) in enumerate(zip(cases, model, impl)):
        if m != x:
            d = dict(what="case %d" % i, case=c[:2000], model=m[:2000], impl=x[:2000])
            if cls:
                d["cls"] = cls(c, m, x)
            out.append(d)
            if len(out) >= limit:
                break
    return out


def merge_stats(paths):
    dist, ev, nt, samples = {}, 0, 0, []
    for p in paths:
        if not os.path.exists(p):
            continue
        s = json.load(open(p))
        for k, v in s.get("dist", {}).items():
            dist[k] = dist.get(k, 0) + v
        ev += s.get("evaluations", 0)
        nt += s.get("distinct_nontrivial", 0)
        samples += s.get("samples", [])
    return dist, ev, nt, samples
