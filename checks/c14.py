# C14 — graph traversals return exactly the reachable elements in documented order
import vlib
from checks.db_common import run_db, add_big, spec_level, run_dbsmall, merge_runs

META = dict(
    engine="coq+hx_core",
    technique="Coq proof about the executable database model + differential correspondence of the extracted model with the real agdb on generated query "
              "histories and on an exhaustive enumeration of small multigraphs, with a direct reachability/distance oracle on the implementation's answers",
    level_text="Machine-checked theorems (coq/Props/C14.v, all FULL, closed under the global context) about the model of SearchImpl and its four lazy iterators "
               "(coq/theories/Search.v search_loop/expand/graph_search, revision with all fix: commits) for every database whose slot graph satisfies the explicit "
               "adjacency hypothesis adj_ok (coq/theories/AdjOk.v: each node's out/in chain ends within the fuel, has no duplicates and enumerates exactly its edges; "
               "edge endpoints are nodes; decidable checker adj_okb proved sound; DISCHARGED by C14_wf_adj_ok / C14_reachable_graphs_adj_ok from the graph invariant wf, which GraphSpec.grun_wf proves for every history of insert_node/insert_edge/remove_node/remove_edge from the empty graph), for every existing NODE or EDGE "
               "as origin, forward and reverse: C14_lazy_eq_eager_bfs / _dfs: the implementation's result equals the textbook eager BFS (queue of (element, distance), "
               "all edges of a dequeued node enqueued newest first, far endpoint of a dequeued edge enqueued, visited test on dequeue) resp. eager DFS (stack) "
               "specification, by a lock-step simulation in which every pending edge item of the lazy work list stands for the remaining sibling chain starting at it; "
               "C14_bfs_reachable: the BFS result starts with the origin, has no duplicates, contains exactly the elements reachable by node->edge->endpoint steps, "
               "its distances are non-decreasing and each equals the length of a shortest alternating path (every node and edge step counts 1); "
               "C14_dfs_preorder: the DFS result starts with the origin, no duplicates, exactly the reachable elements, and is the pre-order of the recursive "
               "newest-edge-first depth-first search (each branch followed to its end before backtracking); C14_traversal_exact (same directly on graph_search), "
               "C14_search_query_forward / _reverse (at the level of SearchQuery::search), C14_no_fuel / C14_no_fuel_all_conditions (the loop's fuel is never exhausted, also for every condition list and limit/offset handler). "
               "Witness theorems document two repaired defects: C14_edge_origin_pinned_refuted (before fix 23600df a search from an edge returned its unreachable "
               "older sibling) and C14_visited_chain_refuted (found by this proof: with that fix alone the already visited origin edge cut its node's lazy edge list "
               "and reachable older siblings were lost; repaired by fix 7e27fbc). The model is tied to /repo on every run by differential execution of the extracted "
               "model against the real agdb: random search-profile histories plus EVERY multigraph up to the enumeration bound (all origins, BFS/DFS, both "
               "directions: identical result order), together with a direct reachability/distance oracle on the implementation's answers.",
    design_ref="DESIGN.md §5 C14",
    level_note="Trusted: Coq kernel, extraction (ExtrOcamlBasic), OCaml driver, Rust harness/generators. Theorems are about the model (theories/Search.v etc.); "
               "the tie to the code is differential execution of generated histories and of the exhaustive small-graph enumeration (every query result compared).",
)

PROFILE = "search"                      # generator profile: graph kv alias index txn search all hash
CLASSES = ("traverse-",)                # oracle failure classes that are violations of THIS property
COMMON = ("panic", "read-error")        # failures that are violations wherever they show up


def run(ctx):
    quick = ctx.tier == "quick"
    n, steps = (120, 30) if quick else (3000, 60)
    nodes, edges = (3, 3) if quick else (4, 4)
    # quick: every id-reuse variant of every graph; thorough: all variants up to n + m <= 6, every 8th graph beyond
    reuse_full, reuse_k = (6, 1) if quick else (6, 8)
    r = run_db(ctx, PROFILE, n, steps)
    r = add_big(ctx, r, 40 if ctx.tier == "quick" else 800)
    s = run_dbsmall(ctx, nodes, edges, paths=False, traverse=True, sub="small", reuse_full=reuse_full, reuse_k=reuse_k)
    m = merge_runs(r, s)
    scope = "every graph with m >= 1" if reuse_k == 1 else "all graphs with m >= 1 and (n <= 2 or n + m <= %d) and every %dth of the remaining graphs" % (reuse_full, reuse_k)
    failures = [f for f in m["failures"] if f["cls"].startswith(CLASSES) or f["cls"] in COMMON]
    failures += [f for f in spec_level(m) if f["cls"] == "model-mismatch"]
    return dict(
        evaluations=m["histories"], distinct_nontrivial=m["nontrivial"], samples=m["samples"], dist=m["dist"],
        rule="(1) %d generated query histories (profile %s, <= %d steps, mostly-valid operations over live ids/aliases plus an invalid stream; searches with "
             "random origins/destinations/conditions/limits); every query result and a full dump every 8 steps compared line by line with the extracted Coq "
             "model. (2) exhaustive: every multigraph with n <= %d nodes and every ORDERED edge list of length m <= %d over [1..n]x[1..n] (self-loops, parallel "
             "edges; the order fixes the adjacency order), each built in its own history, plus id-reuse variants (each edge removed and re-inserted; each node "
             "removed with its edges and re-created) for %s: %d histories; on each, "
             "breadth-first and depth-first search, forward and reverse, without conditions, from EVERY node and EVERY edge; every result compared line by line "
             "with the extracted model (traversal order) and checked by a direct oracle computed from the element list: origin first, no duplicate, only existing "
             "and reachable ids, every reachable element present, BFS distances non-decreasing (every node and edge step counts 1). "
             "non-trivial = history that reached a state with >= 2 nodes and an edge"
             % (r["histories"], PROFILE, steps, nodes, edges, scope, s["histories"]),
        failures=failures, disagreements=m["disagreements"],
        assumptions=["the theorems are stated for graphs satisfying adj_ok (coq/theories/AdjOk.v); C14_reachable_graphs_adj_ok proves it for every graph produced "
                     "by a history of the four graph operations from the empty graph (ids passed with the sign of their kind); that DbImpl's query layer only "
                     "performs such operations is part of the model correspondence, not a separate theorem",
                     "traversals are searches without conditions, limit, offset and ordering (the property's own quantifier); "
                     "conditioned searches are covered only by the differential comparison with the model"],
    )
