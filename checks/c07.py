# C07 — opening or reading a damaged database file never crashes the process
import os, subprocess
import vlib
from checks.common import *

META = dict(
    engine="coq+hx_core",
    technique="mutation of valid database files (truncation, guided header / index / length-prefix / graph-slot overwrites, bit flips, garbage and torn "
              "recovery logs, random files) opened and fully read in child processes under a time limit, an address-space limit and an allocation tracker, "
              "each crash classified by its SITE (panic location, allocation call chain, where a hang was interrupted) + Coq proof about an executable model "
              "of the storage layer's open path + differential correspondence of the extracted model with the real Storage::new",
    level_text="Direct oracle on /repo (every run): each damaged input x {DbFile, Db, DbMemory} must end as `opens` (then every element, value, alias, index, "
               "node count and a set of searches is read) or `error`; panic / abort / allocation request above 65536 + 1024 x (file + log length) / no result "
               "in 4 s is a failure whose class names the crash site. Machine-checked theorems (coq/Props/C07.v) about the model coq/theories/OpenFile.v of "
               "the STORAGE layer (recovery log repair / parse / replay, the three back-ends' new and read, read_records with header, size and version "
               "checks, the record table sizing, value_as_bytes) and of load_db_value (coq/theories/ValueIndex.v): see the Props file for which statements "
               "are full and which are `_partial`. Above the storage layer (round 5): the model coq/theories/LoadOutcome.v of the LOAD of the whole database "
               "on an arbitrary record store (DbImpl::try_new_with_storage: root record incl. the legacy-format test, DbGraph / DbIndexedMap / DbIndexes / "
               "DbKeyValues::from_storage with the checked vector length, every index key through load_db_value; then the complete read of every "
               "component) with theorem C07_db_load_total_partial: for EVERY record map the outcome is a database or an error, or the panic of "
               "load_db_value for an unknown type nibble (the one listed site = known class panic-db_value-explicit-panic; "
               "C07_db_load_total_with_type_check: with that check the model never panics), never a read buffer above the limit; "
               "C07_db_load_agrees_with_C05 (FULL): on every record store that holds a database (stored_db of C05) the outcome is Loaded d' with d' "
               "THE database C05_db_reload's load_db returns; C07_db_load_nonvacuous: every outcome occurs (one damaged byte of C05's example store "
               "panics at open). PARTIAL: the model stops "
               "at two write paths (no root record -> a database is created; a 40..47 byte root record -> legacy conversion) and the QUERIES that read an "
               "opened damaged database lazily are not modelled — for those the evidence is the mutation run. "
               "The model is tied to /repo on every run: for each damaged input of at most 1200 bytes the outcome class of the real Storage::new "
               "(verification hook wrapper) per back-end and, when it opens, the file length and every record value (indexes 1..24) are compared with "
               "the extracted model; the model revision (which bounds checks are present) is read off the source tree. Database level, every run: for each "
               "damaged input of at most 65536 bytes whose storage layer opens and whose live records are all readable, the raw record map (read through "
               "VStorage<FileStorage> on a copy) is fed to the extracted load_outcome and the class of its open phase must equal the class of DbFile::new "
               "on the same bytes (opens / error / panic-db_value-explicit-panic / alloc); when the model loads the whole database its ordered dump is "
               "also compared with the dump of the opened real database and the agreements are COUNTED (the real reads go lazily through the query "
               "layer, so on a damaged store a difference there is not a disagreement).",
    design_ref="DESIGN.md §5 C07",
    level_note="Trusted: Coq kernel, extraction (ExtrOcamlBasic), OCaml driver, Rust harness (mutation generators, worker processes, setrlimit, "
               "allocation tracker, addr2line for call chains). The harness is built with debug assertions (arithmetic overflow panics are counted). "
               "Known findings (not repairable by a local bounds check, or repair not applicable): see known_findings.txt classes alloc-StorageRecords.set_record/..., "
               "hang-SearchQuery.process, alloc-PathSearch.expand_node/..., panic-db_value-explicit-panic, and — only while the tree lacks the log position check of "
               "fixes/C07-wal-position.diff; with the check detected they are violations — alloc-FileStorage.read/FileStorageMemoryMapped.new, "
               "hang-Storage.read_records; each has a stored witness under corpus/C07 that is replayed on every run.",
)


# repaired by fixes/C07-wal-position.diff (position check in FileStorage::apply_wal_record)
WAL_POSITION_CLASSES = ("alloc-FileStorage.read/FileStorageMemoryMapped.new", "hang-Storage.read_records")


def detect_guards():
    """which bounds-check repairs the source tree contains -> revision bits of the model (read, table, wal framing, wal position)"""
    def has(rel, text):
        try:
            return text in open(os.path.join(vlib.REPO, "agdb", "src", rel)).read()
        except OSError:
            return False
    read = has("storage/memory_storage.rs", "checked_add(value_len)") and has("storage/file_storage.rs", "checked_add(value_len)")
    table = has("storage/storage_records.rs", "try_reserve")
    framed = has("storage/write_ahead_log.rs", "new_pos < pos + 2 * u64::serialized_size_static()")
    walpos = has("storage/file_storage.rs", "beyond the end of the file")
    return "".join("1" if b else "0" for b in (read, table, framed, walpos))


def run_driver_parallel(exe, cases_path, out_path, parts=12):
    lines = read_lines(cases_path)
    if not lines:
        open(out_path, "w").close()
        return
    n = max(1, (len(lines) + parts - 1) // parts)
    procs = []
    for k in range(0, len(lines), n):
        ci, co = "%s.%d" % (cases_path, k), "%s.%d" % (out_path, k)
        with open(ci, "w") as f:
            f.write("\n".join(lines[k:k + n]) + "\n")
        procs.append((subprocess.Popen([exe], stdin=open(ci, "rb"), stdout=open(co, "wb"), stderr=subprocess.DEVNULL), ci, co))
    with open(out_path, "w") as fo:
        for p, ci, co in procs:
            p.wait(timeout=3000)
            fo.write(open(co, errors="replace").read())
            os.remove(ci); os.remove(co)


def compare_db(w):
    """C07 above the storage layer: the extracted load_outcome on the record store of each damaged file whose storage
    layer opened, against DbFile::new (outcome class of the open: exact) and, when the model loads the whole database,
    the ordered dump of the opened real database."""
    cases, model, impl, desc = (read_lines(os.path.join(w, f)) for f in ("cases_db.txt", "model_db.txt", "impl_db.txt", "desc_db.txt"))
    stats, dis = {}, []

    def bump(k):
        stats[k] = stats.get(k, 0) + 1

    def parts(line):
        o, _, r = line.partition(" read=")
        return o.replace("open=", "", 1), r

    if not (len(cases) == len(model) == len(impl) == len(desc)):
        dis.append(dict(what="database-level correspondence: line counts differ", case="", model=str(len(model)), impl=str(len(impl)), cls="db-load-line-count"))
        return dis, stats
    for c, m, x, d in zip(cases, model, impl, desc):
        mo, mr = parts(m)
        xo, xr = parts(x)
        if mo == "legacy":
            bump("open:legacy-conversion-not-compared")
            continue
        ok = ((mo == "opens" and xo == "opens") or (mo == "error" and xo == "error")
              or (mo == "panic" and xo == "panic-db_value-explicit-panic") or (mo == "alloc" and xo.startswith("alloc-"))
              # no root record: the code CREATES a database in this storage (write path on a damaged storage: not a load, not modelled
              # further): it must end without a crash
              or (mo == "fresh" and xo in ("opens", "error")))
        if not ok:
            dis.append(dict(what="DbFile::new on a damaged file whose storage layer opens vs load_outcome on its record store", case=d[:3000],
                            model=m[:300], impl=x[:300], cls="db-open-%s-vs-%s" % (mo, "-".join(xo.split("-")[:3]))))
            continue
        bump("open:" + mo)
        if mo != "opens":
            continue
        if mr.startswith("db "):
            if xr == mr:
                bump("read:loaded-same-dump")
            else:
                # the real database is read LAZILY through the query layer (hash probing, searches, only the Valid slots of a table),
                # the model reads every component to the end: on a damaged store the two need not see the same; counted, not demanded
                bump("read:loaded-real-" + ("other-dump" if xr.startswith("db ") else xr.split(" ")[0].split(":")[0]))
        else:
            bump("read:model-%s-real-%s" % (mr, xr.split(" ")[0].split(":")[0]))
    return dis, stats


def run(ctx):
    exe, dlog = vlib.build_driver()
    if exe is None:
        raise RuntimeError("driver build failed: " + dlog)
    tdir, blog = vlib.cargo_build("hx_core", "debug")
    if tdir is None:
        raise RuntimeError("harness build failed: " + blog)
    w = ctx.workdir
    guards = detect_guards()
    cmd = [os.path.join(tdir, "hx_core"), "c07", "--seed", str(ctx.seed), "--n", "400", "--out", w, "--jobs", "16",
           "--tier", ctx.tier, "--guards", guards, "--corpus", os.path.join(vlib.VERIF, "corpus", "C07")]
    if ctx.tier == "thorough":
        cmd += ["--variants", "file,mapped,memory,any_file,any_mapped,any_memory"]
    rc, out = vlib.sh(cmd, timeout=20000)
    if rc != 0:
        raise RuntimeError("harness failed: " + out[-2000:])
    run_driver_parallel(exe, os.path.join(w, "cases.txt"), os.path.join(w, "model.txt"))
    cases, model, impl = (read_lines(os.path.join(w, f)) for f in ("cases.txt", "model.txt", "impl.txt"))

    def cls(c, m, x):
        return "model-open-" + (m.split(" ")[0] if m else "none") + "-vs-" + (x.split(" ")[0] if x else "none")

    dis = diff_lines(cases, model, impl, cls=cls)
    # above the storage layer: the record store of every damaged input (<= 65536 bytes) whose storage layer opens -> extracted load_outcome
    run_driver_parallel(exe, os.path.join(w, "cases_db.txt"), os.path.join(w, "model_db.txt"))
    dis_db, stats_db = compare_db(w)
    dis += dis_db
    failures = [dict(cls=l.split(" ")[0], what=l[:3000]) for l in read_lines(os.path.join(w, "oracle.txt"))]
    if guards[3] == "1":
        # the tree has the log position check: the two classes it repairs are no longer accepted as known findings
        for f in failures:
            if f["cls"] in WAL_POSITION_CLASSES:
                f["cls"] = "regressed-" + f["cls"]
    dist, ev, nt, samples = merge_stats([os.path.join(w, "stats.json")])
    dist = {k: v for k, v in dist.items() if not k.startswith("guided-available")}
    dist.update({"dbload-" + k: v for k, v in stats_db.items()})
    return dict(
        evaluations=ev, distinct_nontrivial=nt, samples=samples[:12], dist=dist,
        rule="seed files built with the public API (empty; nodes+edges+values+aliases+indexes; rich values; after removals, not optimised: free regions; "
             "long strings / vectors; 40-node graph; pending valid recovery log%s) x (truncation at every offset of the first 512 bytes, at record boundaries "
             "and at sampled later offsets + %s guided mutations per seed: every record index / size field, the first words of every record "
             "(version, vector length prefixes, root record fields, map and graph record fields), value-type and size nibbles, storage indexes inside value "
             "indexes, graph slots (self references, negative, extremes) + random bit flips / byte / word overwrites / garbage ranges / appended tails "
             "+ garbage, torn, oversized, backward-seeking and far-positioned recovery logs + random files) x {DbFile, Db, DbMemory%s}; each job = open + "
             "full read in a worker process (time limit 4 s, RLIMIT_AS 2 GiB, allocation limit 65536 + 1024 x input length); stored witnesses of "
             "corpus/C07 replayed; a plain storage file (records, free region, free index) and all inputs up to 1200 bytes additionally opened at the "
             "storage layer and compared with the model (revision bits %s = read, table, log framing, log position checks present in the tree); "
             "every input of at most 65536 bytes additionally as a `dbload` job: its record store (every live record read through the storage layer "
             "alone, on a copy) is the input of the extracted load_outcome, compared with DbFile::new on the same bytes (class of the open: opens / "
             "error / panic site / allocation; skipped when the storage layer does not open the file or a live record reaches beyond the end of the file); "
             "non-trivial = distinct damaged input that still opened and was read completely"
             % (("; plus unoptimised rich, 70 aliases, two indexes, 150-node seeds" if ctx.tier == "thorough" else ""),
                ("all" if ctx.tier == "thorough" else "400 sampled"),
                (", DbAny x3" if ctx.tier == "thorough" else ""), guards),
        failures=failures, disagreements=dis,
        assumptions=["the file and its recovery log are the only inputs: no concurrent writer, no I/O errors other than end of file",
                     "an allocation request is called enormous above 65536 + 1024 x (file length + log length) bytes"],
        notes=["model revision bits read off the source tree: %s" % guards,
               "database-level correspondence (load_outcome vs DbFile::new): %d record stores compared, %d disagreements; open classes %s; "
               "when both load, same ordered dump in %d cases, other observations through the lazy query layer in %d (counted, not demanded)"
               % (sum(v for k, v in stats_db.items() if k.startswith("open:")), len(dis_db),
                  ", ".join("%s=%d" % (k[5:], v) for k, v in sorted(stats_db.items()) if k.startswith("open:")),
                  stats_db.get("read:loaded-same-dump", 0), sum(v for k, v in stats_db.items() if k.startswith("read:loaded-real-")))],
    )
