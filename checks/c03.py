# C03 — every mutating query and transaction is atomic across crashes
from checks.crash_common import *

META = dict(
    engine="coq+hx_core",
    technique="Coq proof (corollary of the C01 recovery theorem + nesting-counter lemma) + crash-snapshot enumeration on the real database through the cfg(agdb_verif) hook",
    level_text="Machine-checked: C03_atomic_single_flush — a storage-call sequence with a single final flush recovers, at EVERY crash cut incl. torn calls, to exactly the bytes before or after it; "
               "C03_no_inner_flush — an outer Storage transaction around a body of matched nested transactions produces exactly one flush, at the end (the shape of DbImpl::transaction_mut after the fix: commit); "
               "witness that the pre-fix code flushed inside a query. Tie to /repo: every generated query / transaction on DbFile and Db is checked to issue exactly one flush as its last storage call, and sampled "
               "crash snapshots (all mutating file-system calls + torn prefixes) are reopened and their full ordered dump must equal the dump before or after the interrupted query. The *_guarded theorems state the same for the recovery with the position check of apply_wal_record (model recover_g, fixes/C07-wal-position.diff): on these logs the check never fires (C01_guarded_recovery_agrees), so the statements hold for a tree with or without it.",
    design_ref="DESIGN.md §5 C03",
    level_note="Trusted: Coq kernel, Rust harness incl. snapshot routine, std::fs; the step from 'file bytes equal' to 'database observably identical' is that the structures are loaded from the bytes only "
               "(checked by reopening every snapshot). The shape of transaction_mut is checked at run time (flush positions), not derived from the Rust text.",
)
CLASSES = ("crash-partial", "crash-inner-flush", "panic", "crash-harness-died", "close-reopen-differs")


def run(ctx):
    n, steps, sample = (6, 6, 60) if ctx.tier == "quick" else (60, 12, 300)
    failures, dist, ev, nt, samples = run_crash(ctx, n, steps, sample)
    return dict(evaluations=ev, distinct_nontrivial=nt, samples=samples, dist=dist, rule=RULE % (n * 8, steps, sample),
                failures=[f for f in failures if f["cls"].startswith(CLASSES)], disagreements=[],
                assumptions=["file-system calls persist in issue order; torn writes are prefixes"])
