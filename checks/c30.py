# C30 — a healthy cluster elects a leader and replicates appended entries
from checks.raft_common import *

META = dict(
    engine="coq+hx_raft",
    technique="Coq: executable model of raft.rs evaluated on fault-free schedules (vm_compute / reflective exploration, bounds in the statements); "
              "timed fault-free simulation of the real raft.rs under a virtual clock with the configured timeouts, replayed event by event on the extracted model",
    level_text="Machine-checked for the model, partial with respect to the unbounded property: the statements pinned in coq/Props/C30.v (cluster sizes, schedules and number of appended "
               "entries are written in each statement) say that a fault-free run elects exactly one leader and ends with every appended entry present and committed on every node: for 3 nodes EVERY interleaving of the deliveries (election by node 0's timer, two appends, a heartbeat round; reflective exhaustive exploration with a proved soundness lemma), for 3 and 5 nodes the oldest-first schedule. "
               "On the real code every run simulates healthy 3- and 5-node clusters with the configured timeouts (virtual clock, several tick granularities and message latencies, "
               "1-3 client appends), requires convergence to one leader with equal, fully committed logs, and replays the recorded event list on the extracted model comparing the "
               "complete cluster state after every event.",
    design_ref="DESIGN.md §5 C30, C27–C30 common",
    level_note="Liveness for arbitrary cluster sizes/schedules is not proved (partial). Real timers, HTTP transport and tokio scheduling are replaced by the virtual clock and an in-order network.",
)

RULE = ("timed fault-free simulations (election factor 1000 ms, heartbeat 1000 ms, term timeout 3000 ms; tick 10/50/100/250 ms; latency 0-2 rounds; 1-3 appends; 3 of 4 cases on 3 nodes, "
        "1 of 4 on 5 nodes) must converge; the recorded abstract event list (every process() call that changed something with the elapsed values the implementation saw, every delivery) "
        "is replayed with forced timers on the implementation and on the extracted model and compared per event; plus random adversarial lists for the model tie")


def run(ctx):
    s = seed_of(ctx, "C30")
    return run_property(ctx, "C30", RULE,
                        quick=[("live", ["live", "--seed", s, "--n", "60"]),
                               ("random", ["gen", "--seed", s, "--n", "150", "--len", "60"])],
                        thorough=[("live", ["live", "--seed", s, "--n", "3000"]),
                                  ("random", ["gen", "--seed", s, "--n", "5000", "--len", "80"])])


def search(ctx, broken):
    return search_property(ctx, "C30", broken)
