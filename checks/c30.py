# C30 — a healthy cluster elects a leader and replicates appended entries
from checks.raft_common import *

META = dict(
    engine="coq+hx_raft",
    technique="Coq: executable model of raft.rs; induction over the list of appended payloads on a symbolic steady state (one append round evaluated / explored symbolically) for the oldest-first and the per-channel-FIFO schedules; "
              "vm_compute / reflective exhaustive exploration for the bounded statements; "
              "timed fault-free simulation of the real raft.rs under a virtual clock with the configured timeouts, replayed event by event on the extracted model",
    level_text="Machine-checked for the model, partial with respect to the full property (any cluster size, any fault-free schedule): the statements pinned in coq/Props/C30.v say that a fault-free run elects exactly one leader "
               "and ends with every appended entry present and committed on every node. "
               "(1) C30_fifo_unbounded_3_partial / C30_fifo_unbounded_5_partial: for 3 and for 5 nodes, for EVERY number of appended entries and every payload list, under oldest-first (FIFO) delivery until quiescence after each "
               "scripted action (node 0's election timer, one ClientAppend per payload, a final heartbeat round; the schedule is a relation without fuel or bound): node 0 is the only leader, all others its followers, every log is exactly "
               "the payloads in order in term 1, every commit index equals their number, nothing is in flight — proved by induction over the payload list with a steady-state invariant, for every revision of the election code; "
               "C30_fifo_unbounded_3_run / _5_run: such a run exists for every payload list and is the run of one explicit event list; C30_fifo_election_safety: with the repaired election code these runs never have two leaders in a term. "
               "(2) C30_channel_fifo_unbounded_3_partial: for 3 nodes, every number of appended entries and EVERY per-channel-FIFO interleaving of the deliveries of each round (messages between one pair of nodes in order, deliveries to different peers "
               "in any order — one ordered queue per peer as in the real server), the same conclusion; the election round is covered for ALL interleavings (reflective exploration), the heartbeat round for ALL interleavings and an append round with symbolic log length / log / payload "
               "for all per-channel-FIFO interleavings (tactic-driven exploration of the graph of symbolic states). "
               "The partiality of (1) and (2): only sizes 3 and 5 resp. 3 (the round lemmas are proved per size, not for a symbolic size), appends only when nothing is in flight, and for an unbounded number of appends no interleaving in which a message "
               "overtakes an older one of its own channel during an append round. "
               "(3) bounded statements: for 3 nodes EVERY interleaving of the deliveries of one script (election, two appends, a heartbeat round; reflective exhaustive exploration with a proved soundness lemma); 3 and 5 nodes FIFO with two appends. "
               "On the real code every run simulates healthy 3- and 5-node clusters with the configured timeouts (virtual clock, several tick granularities and message latencies, "
               "1-6 client appends), requires convergence to one leader with equal, fully committed logs, and replays the recorded event list on the extracted model comparing the "
               "complete cluster state after every event.",
    design_ref="DESIGN.md §5 C30, C27–C30 common",
    level_note="Liveness for arbitrary cluster sizes and arbitrary fault-free schedules is not proved (partial): unbounded number of appends only for 3 and 5 nodes under FIFO delivery and for 3 nodes under per-channel-FIFO interleaving; all interleavings only for 3 nodes and two appends. "
               "Real timers, HTTP transport and tokio scheduling are replaced by the virtual clock and an in-order network.",
)

RULE = ("timed fault-free simulations (election factor 1000 ms, heartbeat 1000 ms, term timeout 3000 ms; tick 10/50/100/250 ms; latency 0-2 rounds; 1-6 appends; 3 of 4 cases on 3 nodes, "
        "1 of 4 on 5 nodes) must converge; the recorded abstract event list (every process() call that changed something with the elapsed values the implementation saw, every delivery) "
        "is replayed with forced timers on the implementation and on the extracted model and compared per event; plus random adversarial lists for the model tie")


def run(ctx):
    s = seed_of(ctx, "C30")
    return run_property(ctx, "C30", RULE,
                        quick=[("live", ["live", "--seed", s, "--n", "60", "--max-appends", "6"]),
                               ("random", ["gen", "--seed", s, "--n", "150", "--len", "60"])],
                        thorough=[("live", ["live", "--seed", s, "--n", "3000", "--max-appends", "6"]),
                                  ("random", ["gen", "--seed", s, "--n", "5000", "--len", "80"])])


def search(ctx, broken):
    return search_property(ctx, "C30", broken)
