# C20 — binary serialization round-trips and reports its exact size
import os
import vlib
from checks.common import *

META = dict(
    engine="coq+hx_core",
    technique="Coq proof (induction over type descriptions) + differential correspondence of the extracted model with the real serializers",
    level_text="Machine-checked theorems about an executable model of the serialization format: decode(encode v ++ rest) = (v, size v) and "
               "size v = |encode v| for every value of every type built from the built-ins and the derive macro's struct/tuple/enum/vector constructors "
               "(unbounded nesting and sizes). The model is tied to /repo on every run by running the extracted model and the real "
               "serialize/serialized_size/deserialize on the same generated values of a corpus of 42 type instances and comparing bytes, sizes and decoded values.",
    design_ref="DESIGN.md §5 C20",
    level_note="Trusted: Coq kernel, extraction (ExtrOcamlBasic), OCaml driver, Rust harness/generators. Theorems are about the model; the tie to the code is "
               "differential execution on generated values. PathBuf/SocketAddr/IpAddr are modelled as their display string (std's parse/display round trip trusted).",
)


def run(ctx):
    n = 40 if ctx.tier == "quick" else 1500
    exe, dlog = vlib.build_driver()
    if exe is None:
        raise RuntimeError("driver build failed: " + dlog)
    vlib.sh(["python3", os.path.join(vlib.HARNESS, "gen_types.py")], check=True)
    tdir, blog = vlib.cargo_build("hx_core", "release")
    if tdir is None:
        raise RuntimeError("harness build failed: " + blog)
    w = ctx.workdir
    rc, out = vlib.sh([os.path.join(tdir, "hx_core"), "c20", "--seed", str(ctx.seed), "--n", str(n), "--out", w], timeout=1800)
    if rc != 0:
        raise RuntimeError("harness failed: " + out[-2000:])
    rc, err = run_driver(exe, os.path.join(w, "cases.txt"), os.path.join(w, "model.txt"))
    cases, model, impl = (read_lines(os.path.join(w, f)) for f in ("cases.txt", "model.txt", "impl.txt"))
    dis = diff_lines(cases, model, impl)
    failures = [dict(cls=l.split(" ")[0], what=l[:3000]) for l in read_lines(os.path.join(w, "oracle.txt"))]
    dist, ev, nt, samples = merge_stats([os.path.join(w, "stats.json")])
    return dict(
        evaluations=ev, distinct_nontrivial=nt, samples=samples, dist=dist,
        rule="for each of the corpus instances (built-ins, agdb value types, 19 derived struct/tuple/unit/enum/generic types): "
             "structured random values (boundary integers, all float classes, strings/bytes around 15/16, pre-epoch times, nested vectors); "
             "per value: model wf, enc bytes+size, dec of bytes+random suffix compared line by line with the real "
             "serialize/serialized_size/deserialize; non-trivial = distinct value whose encoding is longer than 8 bytes",
        failures=failures, disagreements=dis,
        assumptions=["PathBuf/SocketAddr/IpAddr are modelled as their display string (std's parse(display(x)) = x is trusted)",
                     "values are those a Rust program can hold: lengths < 2^60, UTF-8 strings, canonical SystemTime"],
    )
