# C21 — deserializing arbitrary bytes never crashes
import os
import vlib
from checks.common import *

META = dict(
    engine="coq+hx_core",
    technique="Coq proof of totality of the model decoder (no panic / unbounded allocation / fuel exhaustion) + differential correspondence on mutated inputs in debug and release builds",
    level_text="Machine-checked theorem: for every type description and every byte string the model decoder (as repaired by the fix: commit) returns a value or an error, "
               "never panics, never requests more than 64*(|input|+1) bytes and never runs out of fuel; witnesses show the pre-fix decoder violated this. "
               "The model is tied to /repo by decoding mutated/garbage inputs with the real deserializers (catch_unwind, allocation-tracking allocator, both build profiles) "
               "and comparing outcome class and value with the extracted model.",
    design_ref="DESIGN.md §5 C21",
    level_note="Trusted: Coq kernel, extraction, OCaml driver, Rust harness. Vec of zero-sized element types is outside ty_ok. 'Enormous allocation' on the implementation side "
               "= a single request above 4096+1024*|input| bytes.",
)


def run_profile(ctx, tdir, exe, prof, n):
    """run the decode harness; restart after an abort (allocation failure) marking the case"""
    w = ctx.workdir
    sfx = "_" + prof
    live = os.path.join(w, "impl_live%s.txt" % sfx)
    if os.path.exists(live):
        os.remove(live)
    aborted = []
    start = 0
    for attempt in range(4):
        rc, out = vlib.sh([os.path.join(tdir, "hx_core"), "c21", "--seed", str(ctx.seed), "--n", str(n), "--out", w,
                           "--start", str(start)], timeout=3600)
        if rc == 0:
            break
        done = len(read_lines(live))
        with open(live, "a") as f:
            f.write("abort\n")
        aborted.append((done, out[-300:]))
        start = done + 1
    impl = read_lines(live)
    cases = read_lines(os.path.join(w, "cases%s.txt" % sfx))
    if not cases:
        # the run never completed: regenerate the case list without executing (start beyond the end)
        vlib.sh([os.path.join(tdir, "hx_core"), "c21", "--seed", str(ctx.seed), "--n", str(n), "--out", w,
                 "--start", "1000000000"], timeout=3600)
        cases = read_lines(os.path.join(w, "cases%s.txt" % sfx))
        if os.path.exists(os.path.join(w, "oracle%s.txt" % sfx)):
            os.remove(os.path.join(w, "oracle%s.txt" % sfx))
    cases = cases[:len(impl)]
    with open(os.path.join(w, "cases%s.txt" % sfx), "w") as f:
        f.write("".join(c + "\n" for c in cases))
    rc, err = run_driver(exe, os.path.join(w, "cases%s.txt" % sfx), os.path.join(w, "model%s.txt" % sfx))
    model = read_lines(os.path.join(w, "model%s.txt" % sfx))
    dis = diff_lines(cases, model, impl)
    failures = [dict(cls=l.split(" ")[0], what=l[:3000]) for l in read_lines(os.path.join(w, "oracle%s.txt" % sfx))]
    for idx, msg in aborted:
        failures.append(dict(cls="decode-abort", what="decode-abort profile=%s case=%s : %s" % (prof, cases[idx] if idx < len(cases) else idx, msg)))
    return cases, dis, failures


def run(ctx):
    n = 60 if ctx.tier == "quick" else 2500
    exe, dlog = vlib.build_driver()
    if exe is None:
        raise RuntimeError("driver build failed: " + dlog)
    vlib.sh(["python3", os.path.join(vlib.HARNESS, "gen_types.py")], check=True)
    dis, failures, total = [], [], 0
    for prof, profile in (("r", "release"), ("d", "debug")):
        tdir, blog = vlib.cargo_build("hx_core", profile)
        if tdir is None:
            raise RuntimeError("harness build failed: " + blog)
        c, d, f = run_profile(ctx, tdir, exe, prof, n)
        total += len(c); dis += d; failures += f
    dist, ev, nt, samples = merge_stats([os.path.join(ctx.workdir, "stats_r.json"), os.path.join(ctx.workdir, "stats_d.json")])
    return dict(
        evaluations=ev, distinct_nontrivial=nt, samples=samples, dist=dist,
        rule="per corpus instance: valid encodings mutated (truncation at a random offset, 8-byte window overwritten by boundary lengths "
             "0,1,2^16..2^63,u64::MAX-k,len,len+1, bit flips, random bytes, appended junk, all-ones) decoded by the real deserializer under catch_unwind "
             "with an allocator recording the largest request, in release and debug (overflow-checking) builds; outcome class and decoded value compared "
             "with the model decoder; non-trivial = distinct input that is not the unmodified valid encoding",
        failures=failures, disagreements=dis,
        assumptions=["enormous allocation = a single request above 4096 + 1024*|input| bytes (implementation side)",
                     "Vec of zero-sized element types excluded (ty_ok): the real loop runs `len` iterations without consuming input"],
    )
