# vlib.py — shared machinery of /verif/bin/check
#
#  * Coq side: regenerate Gen/*.v from /repo (translator), build the closure of
#    Props/Cnn.v with the generated Makefile (full .vo), hygiene gate, collect
#    `Print Assumptions` output per pinned theorem.
#  * extraction: build the OCaml driver from the extracted model.
#  * harness: build the Rust harness crates against /repo's working tree.
#  * evidence / replay / known-findings helpers.
import fcntl, hashlib, json, os, re, shutil, subprocess, sys, time

VERIF = os.path.dirname(os.path.dirname(os.path.abspath(__file__)))
REPO = os.environ.get("VERIF_REPO", "/repo")
CACHE = os.path.join(VERIF, ".cache")
COQ = os.path.join(VERIF, "coq")
EXTRACT = os.path.join(VERIF, "extract")
HARNESS = os.path.join(VERIF, "harness")
EVIDENCE = os.path.join(VERIF, "evidence")
REPLAYS = os.path.join(VERIF, "replays")
GUARD_CFG = "agdb_verif"

ALLOWED_AXIOMS = {
    # axioms declared by Coq's standard library that the development may rely on;
    # each one that actually appears is reported in the evidence.  (none expected)
}

FORBIDDEN = re.compile(
    r"\b(Admitted|admit|Axiom|Axioms|Parameter|Parameters|Conjecture|Conjectures|"
    r"Unset\s+Guard\s+Checking|Unset\s+Positivity\s+Checking|Unset\s+Universe\s+Checking|"
    r"bypass_check|Admit\s+Obligations|type-in-type|impredicative-set|native_compute)\b")


def log(*a):
    print(*a, file=sys.stderr, flush=True)


def sh(cmd, cwd=None, env=None, timeout=None, check=False, stdin=None):
    e = dict(os.environ)
    e.update({"CARGO_NET_OFFLINE": "true"})
    if env:
        e.update(env)
    p = subprocess.run(cmd, cwd=cwd, env=e, timeout=timeout, stdin=stdin,
                       stdout=subprocess.PIPE, stderr=subprocess.STDOUT,
                       shell=isinstance(cmd, str))
    out = p.stdout.decode("utf-8", "replace")
    if check and p.returncode != 0:
        raise RuntimeError("command failed (%s): %s\n%s" % (p.returncode, cmd, out[-4000:]))
    return p.returncode, out


class Lock:
    def __init__(self, name):
        os.makedirs(CACHE, exist_ok=True)
        self.path = os.path.join(CACHE, name + ".lock")

    def __enter__(self):
        self.f = open(self.path, "w")
        fcntl.flock(self.f, fcntl.LOCK_EX)
        return self

    def __exit__(self, *a):
        fcntl.flock(self.f, fcntl.LOCK_UN)
        self.f.close()


# --------------------------------------------------------------------------
# Coq
# --------------------------------------------------------------------------

def strip_coq_comments(src):
    out, depth, i = [], 0, 0
    while i < len(src):
        if src.startswith("(*", i):
            depth += 1; i += 2
        elif src.startswith("*)", i) and depth > 0:
            depth -= 1; i += 2
        else:
            if depth == 0:
                out.append(src[i])
            i += 1
    return "".join(out)


def coq_files():
    r = []
    for sub in ("theories", "Gen", "Props"):
        d = os.path.join(COQ, sub)
        if os.path.isdir(d):
            for f in sorted(os.listdir(d)):
                if f.endswith(".v"):
                    r.append(os.path.join(sub, f))
    return r


def hygiene(files=None):
    """grep the development for forbidden vernacular (outside comments)."""
    bad = []
    for rel in (files or coq_files()):
        src = strip_coq_comments(open(os.path.join(COQ, rel)).read())
        # strings may legitimately contain words; none of our files use such strings
        for m in FORBIDDEN.finditer(src):
            line = src.count("\n", 0, m.start()) + 1
            bad.append("%s:%d: %s" % (rel, line, m.group(0)))
        # Variable/Hypothesis outside a section
        depth = 0
        for ln, l in enumerate(src.split("\n"), 1):
            s = l.strip()
            if re.match(r"^Section\b", s):
                depth += 1
            elif re.match(r"^End\b", s) and depth > 0:
                depth -= 1
            elif depth == 0 and re.match(r"^(Variable|Variables|Hypothesis|Hypotheses|Context)\b", s):
                bad.append("%s:%d: %s outside a section" % (rel, ln, s.split()[0]))
    return bad


def regen(translators=True):
    """run the Rust->Gallina translator(s) against the current /repo tree."""
    gen = os.path.join(COQ, "Gen")
    os.makedirs(gen, exist_ok=True)
    tr = os.path.join(VERIF, "translate", "rs2coq.py")
    msgs = []
    if translators and os.path.exists(tr):
        rc, out = sh([sys.executable, tr, "--repo", REPO, "--out", gen], timeout=120)
        if rc != 0:
            msgs.append(out.strip())
    return msgs


def write_coqproject():
    files = coq_files()
    txt = "-Q theories Agdb\n-Q Gen AgdbGen\n-Q Props AgdbProps\n" + "\n".join(files) + "\n"
    p = os.path.join(COQ, "_CoqProject")
    old = open(p).read() if os.path.exists(p) else None
    if old != txt:
        open(p, "w").write(txt)
    mk = os.path.join(COQ, "Makefile")
    if old != txt or not os.path.exists(mk):
        sh("coq_makefile -f _CoqProject -o Makefile", cwd=COQ, check=True)


def coq_make(targets, timeout=1500):
    """make the given .vo targets (full .vo build). returns (ok, log)."""
    with Lock("coq"):
        write_coqproject()
        cmd = ["make", "-j16"] + targets
        try:
            rc, out = sh(cmd, cwd=COQ, timeout=timeout)
        except subprocess.TimeoutExpired:
            return False, "make timed out after %ss" % timeout
        return rc == 0, out


THEOREM_RE = re.compile(r"^\s*(Theorem|Lemma|Example|Corollary)\s+([A-Za-z0-9_']+)", re.M)


def coq_props(prop):
    """Build Props/<prop>.v and its closure; re-run coqc on the Props file to
    capture `Print Assumptions`.  Returns dict(ok, obligations, discharged,
    theorems=[{name, assumptions}], log, broken=[names], checker_cmd)."""
    rel = "Props/%s.v" % prop
    path = os.path.join(COQ, rel)
    res = dict(ok=False, obligations=0, discharged=0, theorems=[], broken=[], log="",
               checker_cmd="cd /verif/coq && coq_makefile -f _CoqProject -o Makefile && make -j16 Props/%s.vo "
                           "&& coqc -Q theories Agdb -Q Gen AgdbGen -Q Props AgdbProps Props/%s.v  (Print Assumptions per theorem)" % (prop, prop))
    src = strip_coq_comments(open(path).read())
    names = [m.group(2) for m in THEOREM_RE.finditer(src)]
    printed = re.findall(r"Print\s+Assumptions\s+([A-Za-z0-9_']+)\s*\.", src)
    res["obligations"] = len(names)
    missing = [n for n in names if n not in printed]
    bad = hygiene()
    if bad:
        res["log"] = "hygiene gate failed:\n" + "\n".join(bad)
        res["broken"] = ["hygiene:" + b for b in bad]
        return res
    if missing:
        res["log"] = "theorems without Print Assumptions: %s" % missing
        res["broken"] = missing
        return res
    ok, out = coq_make([rel + "o"])
    res["log"] = out[-6000:]
    if not ok:
        # which file failed?
        m = re.findall(r'File "\./([^"]+)", line (\d+)', out)
        res["broken"] = ["%s:%s" % x for x in m] or ["make failed"]
        return res
    # re-run coqc on the leaf to capture Print Assumptions output
    tmpd = os.path.join(CACHE, "tmp", "%s.%d" % (prop, os.getpid()))
    os.makedirs(tmpd, exist_ok=True)
    tmpvo = os.path.join(tmpd, "%s.vo" % prop)
    rc, out = sh(["coqc", "-Q", "theories", "Agdb", "-Q", "Gen", "AgdbGen", "-Q", "Props", "AgdbProps",
                  "-o", tmpvo, rel], cwd=COQ, timeout=600)
    shutil.rmtree(tmpd, ignore_errors=True)
    if rc != 0:
        res["log"] = out[-6000:]
        res["broken"] = ["Props/%s.v (coqc)" % prop]
        return res
    # split output into chunks per Print Assumptions, in order
    chunks = re.split(r"(?m)^(?=Closed under the global context|Axioms:)", out)
    chunks = [c.strip() for c in chunks if c.strip().startswith(("Closed under", "Axioms:"))]
    if len(chunks) != len(printed):
        res["log"] = "could not match Print Assumptions output (%d chunks, %d commands)\n%s" % (len(chunks), len(printed), out[-3000:])
        res["broken"] = ["Print Assumptions parse"]
        return res
    disc = 0
    for n, c in zip(printed, chunks):
        axioms = []
        if c.startswith("Axioms:"):
            axioms = re.findall(r"(?m)^([A-Za-z0-9_'.]+)\s*:", c[len("Axioms:"):])
        okax = all(a in ALLOWED_AXIOMS for a in axioms)
        res["theorems"].append(dict(name=n, assumptions=("closed under the global context" if not axioms else axioms)))
        if okax and n in names:
            disc += 1
        elif not okax:
            res["broken"].append("%s depends on non-allow-listed axioms %s" % (n, axioms))
    res["discharged"] = disc
    res["ok"] = (disc == len(names)) and not res["broken"]
    return res


# --------------------------------------------------------------------------
# extraction + OCaml driver
# --------------------------------------------------------------------------

def file_hash(paths):
    h = hashlib.sha256()
    for p in sorted(paths):
        h.update(p.encode())
        try:
            h.update(open(p, "rb").read())
        except OSError:
            h.update(b"<missing>")
    return h.hexdigest()[:16]


def build_driver(timeout=900):
    """coqc extract/Extract.v (ExtrOcamlBasic only) -> model.ml; ocamlfind ocamlopt driver.
    returns (path_to_driver | None, log)"""
    with Lock("driver"):
        # the model files the extraction depends on
        ok, out = coq_make(["theories/ExtractDeps.vo"])
        if not ok:
            return None, out[-4000:]
        bdir = os.path.join(CACHE, "extract")
        os.makedirs(bdir, exist_ok=True)
        srcs = [os.path.join(EXTRACT, f) for f in sorted(os.listdir(EXTRACT)) if f.endswith((".v", ".ml"))]
        srcs += [os.path.join(COQ, f) for f in coq_files() if f.startswith("theories/")]
        hv = file_hash(srcs)
        exe = os.path.join(bdir, "driver-" + hv)
        if os.path.exists(exe):
            return exe, "cached"
        for f in os.listdir(bdir):
            if f.startswith("driver-"):
                os.remove(os.path.join(bdir, f))
        for f in os.listdir(EXTRACT):
            if f.endswith((".v", ".ml")):
                shutil.copy(os.path.join(EXTRACT, f), bdir)
        rc, out = sh(["coqc", "-Q", os.path.join(COQ, "theories"), "Agdb", "Extract.v"], cwd=bdir, timeout=timeout)
        if rc != 0:
            return None, out[-4000:]
        mls = ["model.mli", "model.ml", "util.ml"] + sorted(f for f in os.listdir(EXTRACT) if f.endswith(".ml") and f not in ("driver.ml", "util.ml")) + ["driver.ml"]
        rc, out2 = sh(["ocamlfind", "ocamlopt", "-inline", "50", "-w", "-a", "-package", "str,unix", "-linkpkg", "-o", exe] + mls,
                      cwd=bdir, timeout=timeout)
        if rc != 0:
            return None, (out + out2)[-4000:]
        return exe, out + out2


# --------------------------------------------------------------------------
# Rust harness
# --------------------------------------------------------------------------

def cargo_build(crate, profile="release", features=None, bins=None, timeout=2400, extra_env=None):
    """build harness/<crate> against /repo (path dependency) with the hook cfg on."""
    cdir = os.path.join(HARNESS, crate)
    # the tree under test: /repo, or a scratch worktree given by VERIF_REPO (seeded-change evaluation)
    tag = "" if REPO == "/repo" else "-" + hashlib.sha256(REPO.encode()).hexdigest()[:8]
    tdir = os.path.join(CACHE, "target-" + crate + tag)
    with Lock("cargo-" + crate):
        tmpl = os.path.join(cdir, "Cargo.toml.in")
        if os.path.exists(tmpl):
            txt = open(tmpl).read().replace("@REPO@", REPO)
            dst = os.path.join(cdir, "Cargo.toml")
            if not os.path.exists(dst) or open(dst).read() != txt:
                open(dst, "w").write(txt)
        shutil.copy(os.path.join(REPO, "Cargo.lock"), os.path.join(cdir, "Cargo.lock"))
        cmd = ["cargo", "build", "--offline", "--target-dir", tdir]
        if profile == "release":
            cmd.append("--release")
        if features:
            cmd += ["--features", ",".join(features)]
        env = {"RUSTFLAGS": "--cfg %s" % GUARD_CFG, "CARGO_NET_OFFLINE": "true",
               "HX_RAFT_SRC": os.environ.get("HX_RAFT_SRC", os.path.join(REPO, "agdb_server/src/raft.rs")),
               "VERIF_SERVER_SRC": os.environ.get("VERIF_SERVER_SRC", REPO)}
        if extra_env:
            env.update(extra_env)
        try:
            rc, out = sh(cmd, cwd=cdir, env=env, timeout=timeout)
        except subprocess.TimeoutExpired:
            return None, "cargo build timed out"
        if rc != 0:
            return None, out[-6000:]
        return os.path.join(tdir, "release" if profile == "release" else "debug"), out[-2000:]


def server_src():
    """source tree the agdb_server binary is built from (VERIF_SERVER_SRC lets a check run
    against a scratch copy of the repository, e.g. for mutation tests)"""
    return os.environ.get("VERIF_SERVER_SRC", REPO)


def build_server(timeout=3600):
    """cargo build -p agdb_server (debug) from server_src() into .cache/target-server[-<hash>].
    returns (path_to_binary | None, log)"""
    src = server_src()
    tdir = os.path.join(CACHE, "target-server" if os.path.realpath(src) == os.path.realpath(REPO)
                        else "target-server-" + hashlib.sha256(os.path.realpath(src).encode()).hexdigest()[:8])
    with Lock("cargo-server"):
        cmd = ["cargo", "build", "--offline", "-p", "agdb_server", "--manifest-path", os.path.join(src, "Cargo.toml"),
               "--target-dir", tdir]
        env = {"RUSTFLAGS": "--cfg %s" % GUARD_CFG, "CARGO_NET_OFFLINE": "true"}
        try:
            rc, out = sh(cmd, env=env, timeout=timeout)
        except subprocess.TimeoutExpired:
            return None, "cargo build of agdb_server timed out"
        if rc != 0:
            return None, out[-6000:]
        return os.path.join(tdir, "debug", "agdb_server"), out[-2000:]


# --------------------------------------------------------------------------
# evidence, replays, known findings
# --------------------------------------------------------------------------

def known_findings():
    """parse known_findings.txt: lines `finding: property=Cnn class=<name> ...` / `fixed: property=Cnn <commit> ...`"""
    p = os.path.join(VERIF, "known_findings.txt")
    res = []
    if os.path.exists(p):
        for l in open(p):
            l = l.strip()
            if not l or l.startswith("#"):
                continue
            m = re.match(r"^(finding|fixed):\s+property=(C\d+)\s+(.*)$", l)
            if m:
                d = dict(kind=m.group(1), property=m.group(2), text=m.group(3))
                mc = re.search(r"class=(\S+)", m.group(3))
                d["cls"] = mc.group(1) if mc else None
                res.append(d)
    return res


def write_replay(prop, payload):
    os.makedirs(REPLAYS, exist_ok=True)
    body = json.dumps(payload, indent=1, sort_keys=True)
    h = hashlib.sha256(body.encode()).hexdigest()[:10]
    p = os.path.join(REPLAYS, "%s-%s.json" % (prop, h))
    open(p, "w").write(body)
    return p


def write_evidence(prop, tier, seed, coverage, assumptions, wall, violations, level="proof"):
    evdir = EVIDENCE
    if os.path.realpath(REPO) != os.path.realpath("/repo"):
        # a run against another tree (VERIF_REPO, seeded-change evaluation) must not overwrite the evidence of /repo
        evdir = os.path.join(CACHE, "evidence-other-tree")
    os.makedirs(evdir, exist_ok=True)
    ev = dict(property_id=prop, tier=tier, seed=int(seed), level=level, coverage=coverage,
              assumptions=assumptions, wall_s=round(wall, 2), violations=int(violations))
    p = os.path.join(evdir, "%s.json" % prop)
    tmp = p + ".tmp"
    open(tmp, "w").write(json.dumps(ev, indent=1))
    os.replace(tmp, p)
    return p


TRUSTED_BASE = [
    "Coq 8.16.1 kernel + coqc (vm_compute used in witness lemmas; no native_compute)",
    "axioms: none declared; Print Assumptions of every pinned theorem is recorded under coverage.axioms",
    "translate/rs2coq.py (Rust text -> Gallina for table-like code)",
    "Coq extraction with ExtrOcamlBasic only (Extract Inductive bool/option/list/prod/unit/sumbool), OCaml 4.13.1, extract/driver.ml parser+printer",
    "Rust harness (generators, canonical printers), rustc, std",
]
